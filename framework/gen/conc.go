package gen

import (
	"fmt"
	"strings"

	"verif/core"
)

// conc.go: concurrent program templates for C03. Every program is data-race
// free by construction; "det" templates have a schedule-independent result,
// the others have several legal outcomes.

type ConcCase struct {
	Name string
	Det  bool // result does not depend on the schedule
	Tmpl string
}

// ConcurrentLookalikePackage: concurrent programs just outside the supported subset (go statements with
// arguments, bare returns inside a goroutine body). goose may reject each case; an accepted case must
// behave like the Go program. Every case is schedule-independent.
func ConcurrentLookalikePackage(name string) *ConcPackage {
	var b strings.Builder
	fmt.Fprintf(&b, "package %s\n\nimport (\n\t\"sync\"\n)\n\nfunc keepSync() *sync.Mutex {\n\treturn new(sync.Mutex)\n}\n\n", name)
	cp := &ConcPackage{Package: &Package{Name: name, Features: map[string]int{}}, Info: map[string]ConcCase{}, MayReject: true}
	add := func(tmpl, body string) {
		cn := fmt.Sprintf("case_l%d", len(cp.Cases))
		fmt.Fprintf(&b, "func %s() uint64 {\n%s}\n\n", cn, body)
		cp.Cases = append(cp.Cases, cn)
		cp.Info[cn] = ConcCase{Name: cn, Det: true, Tmpl: tmpl}
		cp.Features["conc-"+tmpl]++
	}
	pre := "\twg := new(sync.WaitGroup)\n\tout := new(uint64)\n\twg.Add(1)\n"
	add("go-arg-same-name-var", pre+"\tvar x uint64 = 7\n\tgo func(x uint64) {\n\t\t*out = *out + x\n\t\twg.Done()\n\t}(x)\n\tx = x + 100\n\twg.Wait()\n\treturn *out*1000 + x\n")
	add("go-arg-same-name-define", pre+"\tx := uint64(7)\n\tgo func(x uint64) {\n\t\t*out = *out + x\n\t\twg.Done()\n\t}(x)\n\twg.Wait()\n\treturn *out*1000 + x\n")
	add("go-arg-expression-shadowing-later-use", pre+"\tticket := uint64(7)\n\tgo func(ticket uint64) {\n\t\t*out = *out + ticket\n\t\twg.Done()\n\t}(ticket + 1)\n\twg.Wait()\n\treturn *out*100 + ticket\n")
	add("go-two-args-rotated", pre+"\tcur := uint64(5)\n\tprev := uint64(1)\n\tgo func(cur uint64, prev uint64) {\n\t\t*out = cur*10 + prev\n\t\twg.Done()\n\t}(cur+1, cur)\n\twg.Wait()\n\treturn *out + cur + prev\n")
	add("go-arg-loop-variable", "\twg := new(sync.WaitGroup)\n\tmu := new(sync.Mutex)\n\tout := new(uint64)\n\twg.Add(3)\n\tfor i := uint64(0); i < 3; i++ {\n\t\tgo func(i uint64) {\n\t\t\tmu.Lock()\n\t\t\t*out = *out + i*i + 1\n\t\t\tmu.Unlock()\n\t\t\twg.Done()\n\t\t}(i)\n\t}\n\twg.Wait()\n\treturn *out\n")
	add("go-bare-return-in-range", pre+"\txs := make([]uint64, 4)\n\txs[0] = 3\n\txs[1] = 4\n\txs[2] = 0\n\txs[3] = 5\n\tgo func() {\n\t\tfor _, v := range xs {\n\t\t\tif v == 0 {\n\t\t\t\twg.Done()\n\t\t\t\treturn\n\t\t\t}\n\t\t\t*out = *out + v\n\t\t}\n\t\twg.Done()\n\t}()\n\twg.Wait()\n\treturn *out\n")
	add("go-bare-return-in-nested-if", pre+"\tlevel := uint64(2)\n\tgo func() {\n\t\tif level > 0 {\n\t\t\tif level > 1 {\n\t\t\t\twg.Done()\n\t\t\t\treturn\n\t\t\t}\n\t\t\t*out = *out + 10\n\t\t}\n\t\t*out = *out + 1\n\t\twg.Done()\n\t}()\n\twg.Wait()\n\treturn *out\n")
	add("go-bare-return-early-exit", pre+"\tlevel := uint64(2)\n\tgo func() {\n\t\tif level > 1 {\n\t\t\twg.Done()\n\t\t\treturn\n\t\t}\n\t\t*out = *out + 1\n\t\twg.Done()\n\t}()\n\twg.Wait()\n\treturn *out\n")
	add("defer-unlock-in-conditional-block", "\tmu := new(sync.Mutex)\n\tx := new(uint64)\n\t*x = 1\n\twg := new(sync.WaitGroup)\n\twg.Add(1)\n\tdeferInBlock(mu, x, wg, true)\n\twg.Wait()\n\tmu.Lock()\n\tr := *x\n\tmu.Unlock()\n\treturn r\n")
	add("defer-unlock-at-function-top", "\tmu := new(sync.Mutex)\n\tx := new(uint64)\n\t*x = 1\n\twg := new(sync.WaitGroup)\n\twg.Add(1)\n\tdeferAtTop(mu, x, wg)\n\twg.Wait()\n\tmu.Lock()\n\tr := *x\n\tmu.Unlock()\n\treturn r\n")
	add("defer-done-in-goroutine", pre+"\tgo func() {\n\t\tdefer wg.Done()\n\t\t*out = *out + 5\n\t}()\n\twg.Wait()\n\treturn *out\n")
	add("reassign-define-bound-captured-by-goroutine", pre+"\tmu := new(sync.Mutex)\n\tv := uint64(1)\n\tmu.Lock()\n\tgo func() {\n\t\tmu.Lock()\n\t\t*out = v\n\t\tmu.Unlock()\n\t\twg.Done()\n\t}()\n\tv = 2\n\tmu.Unlock()\n\twg.Wait()\n\treturn *out\n")
	add("opassign-define-bound-captured-by-goroutine", pre+"\tmu := new(sync.Mutex)\n\tv := uint64(1)\n\tmu.Lock()\n\tgo func() {\n\t\tmu.Lock()\n\t\t*out = v\n\t\tmu.Unlock()\n\t\twg.Done()\n\t}()\n\tv += 6\n\tmu.Unlock()\n\twg.Wait()\n\treturn *out\n")
	add("redefine-captured-by-goroutine", pre+"\tmu := new(sync.Mutex)\n\tv := uint64(1)\n\tmu.Lock()\n\tgo func() {\n\t\tmu.Lock()\n\t\t*out = v\n\t\tmu.Unlock()\n\t\twg.Done()\n\t}()\n\tv, w2 := uint64(2), uint64(3)\n\tmu.Unlock()\n\twg.Wait()\n\treturn *out + w2 + v\n")
	// sync.RWMutex is not sync.Mutex: two readers are inside at the same time (each waits for the other before
	// leaving), a reader meets a pending writer only after both readers left
	add("rwmutex-two-readers-rendezvous", "\trw := new(sync.RWMutex)\n\tmu := new(sync.Mutex)\n\tcond := sync.NewCond(mu)\n\tvar inside uint64 = 0\n\twg := new(sync.WaitGroup)\n\twg.Add(2)\n\tfor i := uint64(0); i < 2; i++ {\n\t\tgo func() {\n\t\t\trw.RLock()\n\t\t\tmu.Lock()\n\t\t\tinside = inside + 1\n\t\t\tcond.Broadcast()\n\t\t\tfor inside < 2 {\n\t\t\t\tcond.Wait()\n\t\t\t}\n\t\t\tmu.Unlock()\n\t\t\trw.RUnlock()\n\t\t\twg.Done()\n\t\t}()\n\t}\n\twg.Wait()\n\tmu.Lock()\n\tr := inside\n\tmu.Unlock()\n\treturn r\n")
	add("rwmutex-reader-while-spawner-reads", "\trw := new(sync.RWMutex)\n\tout := new(uint64)\n\twg := new(sync.WaitGroup)\n\twg.Add(1)\n\trw.RLock()\n\tgo func() {\n\t\trw.RLock()\n\t\t*out = 4\n\t\trw.RUnlock()\n\t\twg.Done()\n\t}()\n\twg.Wait()\n\tr := *out\n\trw.RUnlock()\n\treturn r\n")
	add("rwmutex-writer-excludes", "\trw := new(sync.RWMutex)\n\tout := new(uint64)\n\twg := new(sync.WaitGroup)\n\twg.Add(2)\n\tfor i := uint64(0); i < 2; i++ {\n\t\tgo func() {\n\t\t\trw.Lock()\n\t\t\t*out = *out + 3\n\t\t\trw.Unlock()\n\t\t\twg.Done()\n\t\t}()\n\t}\n\twg.Wait()\n\trw.RLock()\n\tr := *out\n\trw.RUnlock()\n\treturn r\n")
	add("go-named-function-with-args", pre+"\tv := uint64(9)\n\tgo addDone(wg, out, v+1)\n\twg.Wait()\n\treturn *out\n")
	b.WriteString("func addDone(wg *sync.WaitGroup, out *uint64, v uint64) {\n\t*out = *out + v\n\twg.Done()\n}\n\n")
	b.WriteString("func deferInBlock(mu *sync.Mutex, x *uint64, wg *sync.WaitGroup, guarded bool) {\n\tif guarded {\n\t\tmu.Lock()\n\t\tdefer mu.Unlock()\n\t}\n\tgo func() {\n\t\tmu.Lock()\n\t\t*x = *x * 2\n\t\tmu.Unlock()\n\t\twg.Done()\n\t}()\n\t*x = *x + 1\n}\n\n")
	b.WriteString("func deferAtTop(mu *sync.Mutex, x *uint64, wg *sync.WaitGroup) {\n\tmu.Lock()\n\tdefer mu.Unlock()\n\tgo func() {\n\t\tmu.Lock()\n\t\t*x = *x * 2\n\t\tmu.Unlock()\n\t\twg.Done()\n\t}()\n\t*x = *x + 1\n}\n")
	cp.Source = b.String()
	return cp
}

type ConcPackage struct {
	MayReject bool // look-alike programs: goose may reject a case (then it is not compared)
	*Package
	Info map[string]ConcCase // case name -> info
}

func sleepSalt(rng *core.Rng) string {
	if rng.Chance(50) {
		return fmt.Sprintf("\t\tmachine.Sleep(%d)\n", 1000*(1+rng.Intn(40)))
	}
	return ""
}

// ConcurrentPackage generates one package with n programs drawn from the template families.
func ConcurrentPackage(rng *core.Rng, name string, n int) *ConcPackage {
	return ConcurrentPackageFrom(rng, name, n, -1)
}

// NumConcTemplates is the number of template families.
const NumConcTemplates = 23

// ConcurrentPackageFrom: with first >= 0 the i-th case uses template (first+i) mod NumConcTemplates
// (a sweep over packages then covers every template), with first < 0 templates are drawn at random.
func ConcurrentPackageFrom(rng *core.Rng, name string, n int, first int) *ConcPackage {
	var b strings.Builder
	fmt.Fprintf(&b, "package %s\n\nimport (\n\t\"sync\"\n\n\t\"github.com/goose-lang/goose/machine\"\n)\n\n", name)
	b.WriteString(`type Acc struct {
	mu  *sync.Mutex
	n   uint64
	log []uint64
}

func newAcc() *Acc {
	return &Acc{mu: new(sync.Mutex), n: 0}
}

func (a *Acc) add(d uint64) {
	a.mu.Lock()
	a.n = a.n + d
	a.mu.Unlock()
}

func (a *Acc) get() uint64 {
	a.mu.Lock()
	r := a.n
	a.mu.Unlock()
	return r
}

func useSleep() {
	machine.Sleep(1)
}

// synchronisation objects living in struct fields
type Box struct {
	mu    *sync.Mutex
	cond  *sync.Cond
	wg    *sync.WaitGroup
	val   uint64
	ready bool
	count uint64
}

func newBox() *Box {
	mu := new(sync.Mutex)
	return &Box{mu: mu, cond: sync.NewCond(mu), wg: new(sync.WaitGroup)}
}

func (b *Box) put(v uint64) {
	b.mu.Lock()
	b.val = b.val + v
	b.ready = true
	b.count = b.count + 1
	b.cond.Broadcast()
	b.mu.Unlock()
}

func (b *Box) waitCount(n uint64) uint64 {
	b.mu.Lock()
	for b.count < n {
		b.cond.Wait()
	}
	r := b.val
	b.mu.Unlock()
	return r
}

func (b *Box) waitReady() uint64 {
	b.mu.Lock()
	for !b.ready {
		b.cond.Wait()
	}
	r := b.val
	b.mu.Unlock()
	return r
}

// synchronisation objects passed as parameters
// Mutex is an instrumented lock that counts acquisitions; WaitGroup a hand-built latch. They only share
// their names with the sync types: their own methods must be what runs.
type Mutex struct {
	mu *sync.Mutex
	n  uint64
}

func NewMutex() *Mutex {
	return &Mutex{mu: new(sync.Mutex)}
}

func (m *Mutex) Lock() {
	m.mu.Lock()
	m.n = m.n + 1
}

func (m *Mutex) Unlock() {
	m.mu.Unlock()
}

type WaitGroup struct {
	mu   *sync.Mutex
	c    *sync.Cond
	left uint64
}

func NewWaitGroup(n uint64) *WaitGroup {
	mu := new(sync.Mutex)
	return &WaitGroup{mu: mu, c: sync.NewCond(mu), left: n}
}

func (w *WaitGroup) Done() {
	w.mu.Lock()
	w.left = w.left - 1
	w.c.Broadcast()
	w.mu.Unlock()
}

func (w *WaitGroup) Wait() {
	w.mu.Lock()
	for w.left > 0 {
		w.c.Wait()
	}
	w.mu.Unlock()
}

type VCounter struct {
	mu *sync.Mutex
	n  *uint64
}

func (c VCounter) inc(d uint64) {
	c.mu.Lock()
	*c.n = *c.n + d
	c.mu.Unlock()
}

func (c VCounter) get() uint64 {
	c.mu.Lock()
	v := *c.n
	c.mu.Unlock()
	return v
}

func worker(mu *sync.Mutex, c *sync.Cond, wg *sync.WaitGroup, p *uint64, d uint64) {
	mu.Lock()
	*p = *p + d
	c.Signal()
	mu.Unlock()
	wg.Done()
}

`)
	cp := &ConcPackage{Package: &Package{Name: name, Features: map[string]int{}}, Info: map[string]ConcCase{}}
	for i := 0; i < n; i++ {
		cn := fmt.Sprintf("case_c%d", i)
		k := rng.Intn(NumConcTemplates)
		if first >= 0 {
			k = (first + i) % NumConcTemplates
		}
		var body string
		var det bool
		var tmpl string
		nth := 2 + rng.Intn(2) // goroutines
		c1 := 1 + rng.Intn(9)
		c2 := 1 + rng.Intn(9)
		switch k {
		case 0:
			// lock-protected commutative updates joined by WaitGroup; captured pointer-wrapped local
			tmpl, det = "wg-sum-local", true
			var s strings.Builder
			s.WriteString("\tmu := new(sync.Mutex)\n\twg := new(sync.WaitGroup)\n\tvar total uint64 = 0\n")
			for t := 0; t < nth; t++ {
				fmt.Fprintf(&s, "\twg.Add(1)\n\tgo func() {\n%s\t\tmu.Lock()\n\t\ttotal = total + %d\n\t\tmu.Unlock()\n\t\twg.Done()\n\t}()\n", sleepSalt(rng), c1*(t+1))
			}
			s.WriteString("\twg.Wait()\n\treturn total\n")
			body = s.String()
		case 1:
			// goroutines spawned in a loop, per-iteration copy captured; Add before the loop
			tmpl, det = "wg-loop-copy", true
			body = fmt.Sprintf("\tmu := new(sync.Mutex)\n\twg := new(sync.WaitGroup)\n\tvar total uint64 = %d\n\twg.Add(%d)\n\tfor i := uint64(0); i < %d; i++ {\n\t\tk := i + %d\n\t\tgo func() {\n%s\t\t\tmu.Lock()\n\t\t\ttotal = total + k*k\n\t\t\tmu.Unlock()\n\t\t\twg.Done()\n\t\t}()\n\t}\n\twg.Wait()\n\tmu.Lock()\n\tr := total\n\tmu.Unlock()\n\treturn r\n",
				c2, nth, nth, c1, "\t"+strings.TrimSuffix(sleepSalt(rng), "\n")+"\n")
			body = strings.ReplaceAll(body, "\t\n", "")
		case 2:
			// join by counter + Cond.Wait loop, Signal
			tmpl, det = "cond-counter-signal", true
			var s strings.Builder
			s.WriteString("\tmu := new(sync.Mutex)\n\tcond := sync.NewCond(mu)\n\tvar done uint64 = 0\n\tvar acc uint64 = 0\n")
			for t := 0; t < nth; t++ {
				fmt.Fprintf(&s, "\tgo func() {\n%s\t\tmu.Lock()\n\t\tacc = acc + %d\n\t\tdone = done + 1\n\t\tcond.Signal()\n\t\tmu.Unlock()\n\t}()\n", sleepSalt(rng), c1+t)
			}
			fmt.Fprintf(&s, "\tmu.Lock()\n\tfor done < %d {\n\t\tcond.Wait()\n\t}\n\tr := acc\n\tmu.Unlock()\n\treturn r\n", nth)
			body = s.String()
		case 3:
			// two-stage hand-off with Broadcast: workers wait for a start flag, main waits for completion
			tmpl, det = "cond-broadcast-start", true
			var s strings.Builder
			s.WriteString("\tmu := new(sync.Mutex)\n\tcond := sync.NewCond(mu)\n\tvar started bool = false\n\tvar done uint64 = 0\n\tvar acc uint64 = 0\n")
			for t := 0; t < nth; t++ {
				fmt.Fprintf(&s, "\tgo func() {\n\t\tmu.Lock()\n\t\tfor !started {\n\t\t\tcond.Wait()\n\t\t}\n\t\tacc = acc + %d\n\t\tdone = done + 1\n\t\tcond.Broadcast()\n\t\tmu.Unlock()\n\t}()\n", c2*(t+2))
			}
			fmt.Fprintf(&s, "%s\tmu.Lock()\n\tstarted = true\n\tcond.Broadcast()\n\tfor done < %d {\n\t\tcond.Wait()\n\t}\n\tr := acc\n\tmu.Unlock()\n\treturn r\n", strings.ReplaceAll(sleepSalt(rng), "\t\t", "\t"), nth)
			body = s.String()
		case 4:
			// polling under a lock with Sleep
			tmpl, det = "poll-sleep", true
			var s strings.Builder
			s.WriteString("\tmu := new(sync.Mutex)\n\tvar done uint64 = 0\n\tvar acc uint64 = 0\n")
			for t := 0; t < nth; t++ {
				fmt.Fprintf(&s, "\tgo func() {\n%s\t\tmu.Lock()\n\t\tacc = acc + %d\n\t\tdone = done + 1\n\t\tmu.Unlock()\n\t}()\n", sleepSalt(rng), c1*3+t)
			}
			fmt.Fprintf(&s, "\tvar r uint64 = 0\n\tfor {\n\t\tmu.Lock()\n\t\tif done == %d {\n\t\t\tr = acc\n\t\t\tmu.Unlock()\n\t\t\tbreak\n\t\t}\n\t\tmu.Unlock()\n\t\tmachine.Sleep(20000)\n\t}\n\treturn r\n", nth)
			body = s.String()
		case 5:
			// struct with a mutex field and methods; struct pointer captured
			tmpl, det = "struct-mutex-methods", true
			var s strings.Builder
			s.WriteString("\ta := newAcc()\n\twg := new(sync.WaitGroup)\n")
			for t := 0; t < nth; t++ {
				fmt.Fprintf(&s, "\twg.Add(1)\n\tgo func() {\n%s\t\ta.add(%d)\n\t\ta.add(%d)\n\t\twg.Done()\n\t}()\n", sleepSalt(rng), c1+t, c2)
			}
			s.WriteString("\twg.Wait()\n\treturn a.get()\n")
			body = s.String()
		case 6:
			// first writer wins: several outcomes
			tmpl, det = "first-writer-wins", false
			var s strings.Builder
			s.WriteString("\tmu := new(sync.Mutex)\n\twg := new(sync.WaitGroup)\n\tvar set bool = false\n\tvar winner uint64 = 0\n")
			for t := 0; t < nth; t++ {
				fmt.Fprintf(&s, "\twg.Add(1)\n\tgo func() {\n%s\t\tmu.Lock()\n\t\tif !set {\n\t\t\tset = true\n\t\t\twinner = %d\n\t\t}\n\t\tmu.Unlock()\n\t\twg.Done()\n\t}()\n", sleepSalt(rng), 10+t)
			}
			s.WriteString("\twg.Wait()\n\treturn winner\n")
			body = s.String()
		case 7:
			// last writer wins, order-sensitive accumulation: several outcomes
			tmpl, det = "order-sensitive", false
			var s strings.Builder
			s.WriteString("\tmu := new(sync.Mutex)\n\twg := new(sync.WaitGroup)\n\tvar v uint64 = 1\n")
			for t := 0; t < nth; t++ {
				fmt.Fprintf(&s, "\twg.Add(1)\n\tgo func() {\n%s\t\tmu.Lock()\n\t\tv = v*%d + %d\n\t\tmu.Unlock()\n\t\twg.Done()\n\t}()\n", sleepSalt(rng), 2+t, t+1)
			}
			s.WriteString("\twg.Wait()\n\treturn v\n")
			body = s.String()
		case 8:
			// producer / consumer over a slice with a Cond; consumer sums what it gets
			tmpl, det = "producer-consumer", true
			items := 2 + rng.Intn(2)
			body = fmt.Sprintf("\tmu := new(sync.Mutex)\n\tcond := sync.NewCond(mu)\n\tvar q []uint64\n\tvar closed bool = false\n\tgo func() {\n\t\tfor i := uint64(0); i < %d; i++ {\n\t\t\tmu.Lock()\n\t\t\tq = append(q, i+%d)\n\t\t\tcond.Signal()\n\t\t\tmu.Unlock()\n\t\t}\n\t\tmu.Lock()\n\t\tclosed = true\n\t\tcond.Broadcast()\n\t\tmu.Unlock()\n\t}()\n\tvar sum uint64 = 0\n\tvar taken uint64 = 0\n\tmu.Lock()\n\tfor {\n\t\tif taken < uint64(len(q)) {\n\t\t\tsum = sum + q[taken]\n\t\t\ttaken = taken + 1\n\t\t\tcontinue\n\t\t}\n\t\tif closed {\n\t\t\tbreak\n\t\t}\n\t\tcond.Wait()\n\t}\n\tmu.Unlock()\n\treturn sum*100 + taken\n", items, c1)
		case 9:
			// WaitTimeout loop instead of Wait
			tmpl, det = "wait-timeout-loop", true
			var s strings.Builder
			s.WriteString("\tmu := new(sync.Mutex)\n\tcond := sync.NewCond(mu)\n\tvar done uint64 = 0\n\tvar acc uint64 = 7\n")
			for t := 0; t < nth; t++ {
				fmt.Fprintf(&s, "\tgo func() {\n%s\t\tmu.Lock()\n\t\tacc = acc * %d\n\t\tdone = done + 1\n\t\tcond.Broadcast()\n\t\tmu.Unlock()\n\t}()\n", sleepSalt(rng), 2+t)
			}
			fmt.Fprintf(&s, "\tmu.Lock()\n\tfor done < %d {\n\t\tmachine.WaitTimeout(cond, 5)\n\t}\n\tr := acc\n\tmu.Unlock()\n\treturn r\n", nth)
			body = s.String()
		case 11:
			// cond / mutex / waitgroup in struct fields; several waiters woken by Broadcast
			tmpl, det = "struct-field-cond-broadcast", true
			var s strings.Builder
			s.WriteString("\tb := newBox()\n\tres := new(uint64)\n")
			for t := 0; t < nth; t++ {
				fmt.Fprintf(&s, "\tb.wg.Add(1)\n\tgo func() {\n\t\tv := b.waitReady()\n\t\tb.mu.Lock()\n\t\t*res = *res + v + %d\n\t\tb.mu.Unlock()\n\t\tb.wg.Done()\n\t}()\n", t)
			}
			fmt.Fprintf(&s, "%s\tb.put(%d)\n\tb.wg.Wait()\n\treturn *res\n", strings.ReplaceAll(sleepSalt(rng), "\t\t", "\t"), c1)
			body = s.String()
		case 12:
			// var-declared synchronisation objects
			tmpl, det = "var-declared-sync-objects", true
			var s strings.Builder
			s.WriteString("\tvar mu *sync.Mutex = new(sync.Mutex)\n\tvar c *sync.Cond = sync.NewCond(mu)\n\tvar wg *sync.WaitGroup = new(sync.WaitGroup)\n\tvar done uint64 = 0\n\tvar acc uint64 = 0\n")
			for t := 0; t < nth; t++ {
				fmt.Fprintf(&s, "\twg.Add(1)\n\tgo func() {\n%s\t\tmu.Lock()\n\t\tacc = acc + %d\n\t\tdone = done + 1\n\t\tc.Broadcast()\n\t\tmu.Unlock()\n\t\twg.Done()\n\t}()\n", sleepSalt(rng), c1+t)
			}
			fmt.Fprintf(&s, "\tmu.Lock()\n\tfor done < %d {\n\t\tc.Wait()\n\t}\n\tr := acc\n\tmu.Unlock()\n\twg.Wait()\n\treturn r\n", nth)
			body = s.String()
		case 13:
			// synchronisation objects passed as parameters to a helper run in goroutines
			tmpl, det = "sync-objects-as-parameters", true
			var s strings.Builder
			s.WriteString("\tmu := new(sync.Mutex)\n\tc := sync.NewCond(mu)\n\twg := new(sync.WaitGroup)\n\tp := new(uint64)\n")
			for t := 0; t < nth; t++ {
				fmt.Fprintf(&s, "\twg.Add(1)\n\tgo func() {\n%s\t\tworker(mu, c, wg, p, %d)\n\t}()\n", sleepSalt(rng), c2+t)
			}
			fmt.Fprintf(&s, "\tmu.Lock()\n\tfor *p < %d {\n\t\tc.Wait()\n\t}\n\tmu.Unlock()\n\twg.Wait()\n\treturn *p\n", nth*c2+(nth*(nth-1))/2)
			body = s.String()
		case 14:
			// two waiters parked on one Cond, one Broadcast must release both
			tmpl, det = "two-waiters-one-broadcast", true
			body = fmt.Sprintf("\tb := newBox()\n\tb.wg.Add(2)\n\tr1 := new(uint64)\n\tr2 := new(uint64)\n\tgo func() {\n\t\t*r1 = b.waitReady()\n\t\tb.wg.Done()\n\t}()\n\tgo func() {\n\t\t*r2 = b.waitReady() + 1\n\t\tb.wg.Done()\n\t}()\n\tmachine.Sleep(%d)\n\tb.put(%d)\n\tb.wg.Wait()\n\treturn *r1*100 + *r2\n", 1000*(20+rng.Intn(200)), c1)
		case 15:
			// counting hand-off through struct methods with Signal per event
			tmpl, det = "struct-field-count", true
			var s strings.Builder
			s.WriteString("\tb := newBox()\n")
			for t := 0; t < nth; t++ {
				fmt.Fprintf(&s, "\tgo func() {\n%s\t\tb.put(%d)\n\t}()\n", sleepSalt(rng), c1*(t+1))
			}
			fmt.Fprintf(&s, "\treturn b.waitCount(%d)\n", nth)
			body = s.String()
		case 16:
			// user-defined types that share the names of the sync types
			tmpl, det = "user-types-named-like-sync", true
			var s strings.Builder
			fmt.Fprintf(&s, "\tm := NewMutex()\n\twg := NewWaitGroup(%d)\n\tvar total uint64 = 0\n", nth)
			for t := 0; t < nth; t++ {
				fmt.Fprintf(&s, "\tgo func() {\n%s\t\tm.Lock()\n\t\ttotal = total + %d\n\t\tm.Unlock()\n\t\twg.Done()\n\t}()\n", sleepSalt(rng), c1*(t+1))
			}
			s.WriteString("\twg.Wait()\n\tm.Lock()\n\tr := total*100 + m.n\n\tm.Unlock()\n\treturn r\n")
			body = s.String()
		case 17:
			// WaitGroup armed once with a delta other than 1 (literal, computed, len)
			tmpl, det = "wg-add-delta", true
			var s strings.Builder
			s.WriteString("\tmu := new(sync.Mutex)\n\twg := new(sync.WaitGroup)\n\tvar total uint64 = 0\n")
			switch rng.Intn(3) {
			case 0:
				fmt.Fprintf(&s, "\twg.Add(%d)\n", nth)
			case 1:
				fmt.Fprintf(&s, "\txs := make([]uint64, %d)\n\twg.Add(len(xs))\n", nth)
			default:
				fmt.Fprintf(&s, "\tvar n uint64 = %d\n\twg.Add(int(n + 1))\n", nth-1)
			}
			for t := 0; t < nth; t++ {
				fmt.Fprintf(&s, "\tgo func() {\n%s\t\tmu.Lock()\n\t\ttotal = total + %d\n\t\tmu.Unlock()\n\t\twg.Done()\n\t}()\n", sleepSalt(rng), c2*(t+1))
			}
			s.WriteString("\twg.Wait()\n\treturn total\n")
			body = s.String()
		case 18:
			// a var-declared struct VALUE holding pointers to its lock and counter, value-receiver methods
			tmpl, det = "var-struct-value-receiver-methods", true
			var s strings.Builder
			s.WriteString("\tvar c VCounter\n\tc = VCounter{mu: new(sync.Mutex), n: new(uint64)}\n\twg := new(sync.WaitGroup)\n")
			for t := 0; t < nth; t++ {
				fmt.Fprintf(&s, "\twg.Add(1)\n\tgo func() {\n%s\t\tc.inc(%d)\n\t\twg.Done()\n\t}()\n", sleepSalt(rng), c1+t)
			}
			s.WriteString("\twg.Wait()\n\treturn c.get()\n")
			body = s.String()
		case 19:
			// goroutines spawned in a loop; a var declared in the loop body is written by the goroutine and read by
			// the spawner after the join of that round
			tmpl, det = "loop-body-var-shared-with-goroutine", true
			body = fmt.Sprintf("\tmu := new(sync.Mutex)\n\tvar total uint64 = 0\n\tfor i := uint64(0); i < %d; i++ {\n\t\tvar got uint64 = 0\n\t\twg := new(sync.WaitGroup)\n\t\twg.Add(1)\n\t\tk := i + %d\n\t\tgo func() {\n\t\t\tmu.Lock()\n\t\t\tgot = k * 2\n\t\t\tmu.Unlock()\n\t\t\twg.Done()\n\t\t}()\n\t\twg.Wait()\n\t\tmu.Lock()\n\t\ttotal = total + got\n\t\tmu.Unlock()\n\t}\n\treturn total\n", nth, c1)
		case 20:
			// a poller that holds the lock and waits with a timeout (0, 1 or 5 ms) for a flag only another
			// thread can set under the same lock: WaitTimeout must give the lock up while it waits. The number
			// of polls is bounded, so a wait that never yields the lock is a RESULT (the sentinel) and not a
			// hang: sync.Mutex hands a lock over to a goroutine that has waited 1 ms, so the setter gets in
			// after a handful of polls; the bound is 5 * 10^6.
			tmpl, det = "wait-timeout-poll-bounded", true
			tmo := []int{0, 0, 1, 5}[rng.Intn(4)]
			body = fmt.Sprintf("\tmu := new(sync.Mutex)\n\tcond := sync.NewCond(mu)\n\tvar ready bool = false\n\tvar val uint64 = 0\n\tmu.Lock()\n\tgo func() {\n\t\tmu.Lock()\n\t\tval = %d\n\t\tready = true\n\t\tmu.Unlock()\n\t}()\n\tvar polls uint64 = 0\n\tfor !ready {\n\t\tmachine.WaitTimeout(cond, %d)\n\t\tpolls = polls + 1\n\t\tif polls > 5000000 {\n\t\t\tbreak\n\t\t}\n\t}\n\tr := val\n\tmu.Unlock()\n\tif polls > 5000000 {\n\t\treturn 999999\n\t}\n\treturn r\n", 10+c1, tmo)
		case 21:
			// a timed waiter queued behind a plain waiter on the same Cond, and nobody signals before the timeout:
			// the expiry must get the timed waiter going again (the plain waiter re-checks its predicate and waits on)
			tmpl, det = "timed-waiter-behind-plain-waiter", true
			body = fmt.Sprintf("\tmu := new(sync.Mutex)\n\tcond := sync.NewCond(mu)\n\tvar stop bool = false\n\tvar served uint64 = 0\n\twg := new(sync.WaitGroup)\n\twg.Add(1)\n\tgo func() {\n\t\tmu.Lock()\n\t\tfor !stop {\n\t\t\tcond.Wait()\n\t\t}\n\t\tserved = served + %d\n\t\tmu.Unlock()\n\t\twg.Done()\n\t}()\n\tmachine.Sleep(%d)\n\tmu.Lock()\n\tmachine.WaitTimeout(cond, %d)\n\tstop = true\n\tcond.Broadcast()\n\tmu.Unlock()\n\twg.Wait()\n\tmu.Lock()\n\tr := served\n\tmu.Unlock()\n\treturn r\n", 10+c2, 1000000*(1+rng.Intn(4)), 5+rng.Intn(20))
		case 22:
			// the lock is BUSY at the instant the timeout expires: a third thread takes it once the waiter is
			// parked (the waiter holds it until then), keeps it across the expiry and releases it without
			// signalling. The expiry's wakeup has to wait for the lock, not be dropped: Go returns; a lost
			// wakeup leaves every goroutine asleep, which the Go runtime reports (outcome DEADLOCK)
			tmpl, det = "wait-timeout-lock-busy-at-expiry", true
			body = fmt.Sprintf("\tmu := new(sync.Mutex)\n\tcond := sync.NewCond(mu)\n\tvar held uint64 = 0\n\twg := new(sync.WaitGroup)\n\twg.Add(1)\n\tmu.Lock()\n\tgo func() {\n\t\tmu.Lock()\n\t\tmachine.Sleep(%d)\n\t\theld = %d\n\t\tmu.Unlock()\n\t\twg.Done()\n\t}()\n\tmachine.WaitTimeout(cond, %d)\n\tr := held\n\tmu.Unlock()\n\twg.Wait()\n\treturn r + 1\n", 1000000*(20+rng.Intn(20)), 10+c1, 2+rng.Intn(8))
		case 10:
			// nested goroutines and a parameter captured; two locks taken in a fixed order
			tmpl, det = "nested-spawn-two-locks", true
			body = fmt.Sprintf("\tm1 := new(sync.Mutex)\n\tm2 := new(sync.Mutex)\n\twg := new(sync.WaitGroup)\n\tx := new(uint64)\n\ty := new(uint64)\n\twg.Add(2)\n\tgo func() {\n\t\tm1.Lock()\n\t\tm2.Lock()\n\t\t*x = *x + %d\n\t\t*y = *y + *x\n\t\tm2.Unlock()\n\t\tm1.Unlock()\n\t\tgo func() {\n\t\t\tm1.Lock()\n\t\t\t*x = *x + 1\n\t\t\tm1.Unlock()\n\t\t\twg.Done()\n\t\t}()\n\t\twg.Done()\n\t}()\n\twg.Wait()\n\tm1.Lock()\n\tm2.Lock()\n\tr := *x*1000 + *y\n\tm2.Unlock()\n\tm1.Unlock()\n\treturn r\n", c1)
		}
		fmt.Fprintf(&b, "func %s() uint64 {\n%s}\n\n", cn, body)
		cp.Cases = append(cp.Cases, cn)
		cp.Info[cn] = ConcCase{Name: cn, Det: det, Tmpl: tmpl}
		cp.Features["conc-"+tmpl]++
	}
	cp.Source = b.String()
	return cp
}

// ConcurrentPathsPackage: the dimension "access path through which a synchronisation object is
// reached". Every program has two locks (or a lock and a cond / waitgroup): the OUTER one is held by
// the spawner across the join, the other one is reached through the path under test by the spawned
// thread. A translation that resolves the path to the wrong object (the outer struct's same-named
// field, a neighbouring slice element, ...) makes the two coincide: the emitted program deadlocks or
// gets stuck on every interleaving while the Go program returns a schedule-independent value. goose
// may reject a path (the case is then not compared).
func ConcurrentPathsPackage(name string, layout int) *ConcPackage {
	var b strings.Builder
	fmt.Fprintf(&b, "package %s\n\nimport (\n\t\"sync\"\n)\n\n", name)
	// field layout: where the synchronisation fields sit in their structs (a wrong descriptor or a wrong
	// offset reads a neighbouring field)
	syncI := "\tmu   *sync.Mutex\n\tcond *sync.Cond\n\twg   *sync.WaitGroup\n"
	dataI := "\tdeep Deep\n\tdone bool\n\tval  uint64\n"
	syncO := "\tmu    *sync.Mutex\n\tcond  *sync.Cond\n\twg    *sync.WaitGroup\n"
	dataO := "\tinner Inner\n\tip    *Inner\n\tn     uint64\n"
	deep := "\tmu *sync.Mutex\n\tk  uint64\n"
	inner, outer := syncI+dataI, syncO+dataO
	switch layout % 4 {
	case 1:
		inner, deep = dataI+syncI, "\tk  uint64\n\tmu *sync.Mutex\n"
	case 2:
		outer = dataO + syncO
	case 3:
		inner, outer, deep = "\tdone bool\n"+syncI+"\tdeep Deep\n\tval  uint64\n", "\tn     uint64\n\tinner Inner\n"+syncO+"\tip    *Inner\n", "\tk  uint64\n\tmu *sync.Mutex\n"
	}
	b.WriteString("type Deep struct {\n" + deep + "}\n\ntype Inner struct {\n" + inner + "}\n\ntype Outer struct {\n" + outer + "}\n\n")
	b.WriteString(`func mkInner() Inner {
	mu := new(sync.Mutex)
	return Inner{mu: mu, cond: sync.NewCond(mu), wg: new(sync.WaitGroup), deep: Deep{mu: new(sync.Mutex)}}
}

func mkInnerPtr() *Inner {
	mu := new(sync.Mutex)
	return &Inner{mu: mu, cond: sync.NewCond(mu), wg: new(sync.WaitGroup), deep: Deep{mu: new(sync.Mutex)}}
}

func mkOuter() *Outer {
	mu := new(sync.Mutex)
	return &Outer{mu: mu, cond: sync.NewCond(mu), wg: new(sync.WaitGroup), inner: mkInner(), ip: mkInnerPtr()}
}

func lockOf(p *Outer) *sync.Mutex {
	return p.inner.mu
}

func (p *Outer) innerLock() *sync.Mutex {
	return p.ip.mu
}

func (in *Inner) bump(d uint64) {
	in.mu.Lock()
	in.val = in.val + d
	in.mu.Unlock()
}

`)
	cp := &ConcPackage{Package: &Package{Name: name, Features: map[string]int{}}, Info: map[string]ConcCase{}, MayReject: true}
	add := func(tmpl, body string) {
		cn := fmt.Sprintf("case_p%d", len(cp.Cases))
		fmt.Fprintf(&b, "func %s() uint64 {\n%s}\n\n", cn, body)
		cp.Cases = append(cp.Cases, cn)
		cp.Info[cn] = ConcCase{Name: cn, Det: true, Tmpl: "path-" + tmpl}
		cp.Features["conc-path-"+tmpl]++
	}
	// the spawner holds p.mu across the join; the thread takes the lock reached through PATH
	mutexProg := func(setup, path string) string {
		return "\tp := mkOuter()\n" + setup + "\tjoin := new(sync.WaitGroup)\n\tjoin.Add(1)\n\tp.mu.Lock()\n\tgo func() {\n\t\t" + path + ".Lock()\n\t\tp.n = p.n + 7\n\t\t" + path + ".Unlock()\n\t\tjoin.Done()\n\t}()\n\tjoin.Wait()\n\tr := p.n\n\tp.mu.Unlock()\n\treturn r\n"
	}
	add("mutex-value-field", mutexProg("", "p.inner.mu"))
	add("mutex-pointer-field", mutexProg("", "p.ip.mu"))
	add("mutex-three-levels", mutexProg("", "p.inner.deep.mu"))
	add("mutex-three-levels-through-pointer", mutexProg("", "p.ip.deep.mu"))
	add("mutex-slice-element", mutexProg("\tlocks := make([]*sync.Mutex, 3)\n\tlocks[0] = p.mu\n\tlocks[1] = new(sync.Mutex)\n\tlocks[2] = p.mu\n", "locks[1]"))
	add("mutex-map-element", mutexProg("\tbyKey := make(map[uint64]*sync.Mutex)\n\tbyKey[1] = p.mu\n\tbyKey[7] = new(sync.Mutex)\n", "byKey[7]"))
	add("mutex-function-result", mutexProg("", "lockOf(p)"))
	add("mutex-method-result", mutexProg("", "p.innerLock()"))
	add("mutex-pointer-to-pointer", mutexProg("\tpp := new(*Outer)\n\t*pp = p\n", "(*pp).inner.mu"))
	add("mutex-alias-local", mutexProg("\tq := p.ip\n", "q.mu"))
	add("mutex-struct-value-copy", mutexProg("\tin := p.inner\n", "in.mu"))
	add("mutex-var-struct-value", mutexProg("\tvar in Inner\n\tin = p.inner\n", "in.mu"))
	add("mutex-method-on-value-field", "\tp := mkOuter()\n\tjoin := new(sync.WaitGroup)\n\tjoin.Add(1)\n\tp.mu.Lock()\n\tgo func() {\n\t\tp.ip.bump(7)\n\t\tp.ip.bump(1)\n\t\tjoin.Done()\n\t}()\n\tjoin.Wait()\n\tr := p.ip.val\n\tp.mu.Unlock()\n\treturn r\n")
	// wait groups through paths: the outer group stays armed (never waited on), the inner one joins
	wgProg := func(setup, path string) string {
		return "\tp := mkOuter()\n" + setup + "\tp.wg.Add(1)\n\t" + path + ".Add(2)\n\tfor i := uint64(0); i < 2; i++ {\n\t\tk := i + 3\n\t\tgo func() {\n\t\t\tp.mu.Lock()\n\t\t\tp.n = p.n + k\n\t\t\tp.mu.Unlock()\n\t\t\t" + path + ".Done()\n\t\t}()\n\t}\n\t" + path + ".Wait()\n\tp.mu.Lock()\n\tr := p.n\n\tp.mu.Unlock()\n\tp.wg.Done()\n\treturn r\n"
	}
	add("waitgroup-value-field", wgProg("", "p.inner.wg"))
	add("waitgroup-pointer-field", wgProg("", "p.ip.wg"))
	add("waitgroup-alias-local", wgProg("\tq := p.ip\n", "q.wg"))
	add("waitgroup-slice-element", wgProg("\tgroups := make([]*sync.WaitGroup, 2)\n\tgroups[0] = p.wg\n\tgroups[1] = new(sync.WaitGroup)\n", "groups[1]"))
	// condition variables through paths: the waiter waits on the inner cond under the inner lock
	condProg := func(setup, obj string) string {
		return "\tp := mkOuter()\n" + setup + "\tgo func() {\n\t\t" + obj + ".mu.Lock()\n\t\t" + obj + ".val = 9\n\t\t" + obj + ".done = true\n\t\t" + obj + ".cond.Broadcast()\n\t\t" + obj + ".mu.Unlock()\n\t}()\n\t" + obj + ".mu.Lock()\n\tfor !" + obj + ".done {\n\t\t" + obj + ".cond.Wait()\n\t}\n\tr := " + obj + ".val\n\t" + obj + ".mu.Unlock()\n\treturn r\n"
	}
	add("cond-pointer-field", condProg("", "p.ip"))
	add("cond-alias-local", condProg("\tq := p.ip\n", "q"))
	cp.Source = b.String()
	return cp
}

// ConcurrentBodyShapesPackage: the dimension "what the body of a go statement's function literal
// consists of". Every program's spawner holds mu across the go statement, looks at the shared cell
// while still holding it (the new thread cannot have run: its first action takes mu), releases mu and
// joins; the thread's body is exactly ONE statement of the kind under test (a loop of each form, a
// conditional, a bare block, a call, a nested go). A translation that lets a part of that statement
// escape from the forked expression (the printer's precedence of `Fork e1;; e2`, a dropped pair of
// parentheses) runs it in the spawner, which already holds mu: every interleaving of the emitted
// program deadlocks or returns a different value, while Go's result is schedule-independent.
// part 1 holds the bodies with a three-clause loop (whose translation opens with a let-binding: a
// printer defect there makes the whole file unreadable, which must not hide the other shapes), part 0
// the rest.
func ConcurrentBodyShapesPackage(name string, part int) *ConcPackage {
	var b strings.Builder
	fmt.Fprintf(&b, "package %s\n\nimport (\n\t\"sync\"\n)\n\n", name)
	b.WriteString("func work(mu *sync.Mutex, x *uint64, wg *sync.WaitGroup, d uint64) {\n\tmu.Lock()\n\t*x = *x + d\n\tmu.Unlock()\n\twg.Done()\n}\n\n")
	cp := &ConcPackage{Package: &Package{Name: name, Features: map[string]int{}}, Info: map[string]ConcCase{}, MayReject: true}
	add := func(tmpl, body string) {
		if (part == 1) != strings.Contains(body, "; i++ {") {
			return
		}
		cn := fmt.Sprintf("case_b%d", len(cp.Cases))
		fmt.Fprintf(&b, "func %s() uint64 {\n%s}\n\n", cn, body)
		cp.Cases = append(cp.Cases, cn)
		cp.Info[cn] = ConcCase{Name: cn, Det: true, Tmpl: "body-" + tmpl}
		cp.Features["conc-body-"+tmpl]++
	}
	prog := func(setup, stmt, after string) string {
		return "\tmu := new(sync.Mutex)\n\twg := new(sync.WaitGroup)\n\tx := new(uint64)\n" + setup + "\twg.Add(1)\n\tmu.Lock()\n\tgo func() {\n" + stmt + "\t}()\n" + after + "\tr0 := *x\n\tmu.Unlock()\n\twg.Wait()\n\tmu.Lock()\n\tr := r0*1000 + *x\n\tmu.Unlock()\n\treturn r\n"
	}
	locked := func(ind, inner string) string {
		return ind + "mu.Lock()\n" + inner + ind + "mu.Unlock()\n"
	}
	add("for-three-clause", prog("", "\t\tfor i := uint64(0); i < 3; i++ {\n"+locked("\t\t\t", "\t\t\t*x = *x + i + 1\n\t\t\tif i == 2 {\n\t\t\t\twg.Done()\n\t\t\t}\n")+"\t\t}\n", ""))
	add("for-condition-only", prog("\tn := new(uint64)\n", "\t\tfor *n < 3 {\n"+locked("\t\t\t", "\t\t\t*n = *n + 1\n\t\t\t*x = *x + 2\n\t\t\tif *n == 3 {\n\t\t\t\twg.Done()\n\t\t\t}\n")+"\t\t}\n", ""))
	add("for-infinite-with-break", prog("\tn := new(uint64)\n", "\t\tfor {\n"+locked("\t\t\t", "\t\t\t*n = *n + 1\n\t\t\t*x = *x + 3\n")+"\t\t\tif *n == 2 {\n\t\t\t\twg.Done()\n\t\t\t\tbreak\n\t\t\t}\n\t\t\tcontinue\n\t\t}\n", ""))
	add("range-slice", prog("\txs := make([]uint64, 3)\n\txs[0] = 1\n\txs[1] = 2\n\txs[2] = 4\n", "\t\tfor i, v := range xs {\n"+locked("\t\t\t", "\t\t\t*x = *x + v\n\t\t\tif i == 2 {\n\t\t\t\twg.Done()\n\t\t\t}\n")+"\t\t}\n", ""))
	add("range-map", prog("\tm := make(map[uint64]uint64)\n\tm[5] = 6\n", "\t\tfor k, v := range m {\n"+locked("\t\t\t", "\t\t\t*x = *x + k + v\n\t\t\twg.Done()\n")+"\t\t}\n", ""))
	add("if-else", prog("\tflag := new(bool)\n\t*flag = true\n", "\t\tif *flag {\n"+locked("\t\t\t", "\t\t\t*x = *x + 5\n")+"\t\t\twg.Done()\n\t\t} else {\n\t\t\twg.Done()\n\t\t}\n", ""))
	add("bare-block", prog("", "\t\t{\n"+locked("\t\t\t", "\t\t\t*x = *x + 6\n")+"\t\t\twg.Done()\n\t\t}\n", ""))
	add("single-call", prog("", "\t\twork(mu, x, wg, 7)\n", ""))
	add("nested-go", prog("", "\t\tgo func() {\n"+locked("\t\t\t", "\t\t\t*x = *x + 8\n")+"\t\t\twg.Done()\n\t\t}()\n", ""))
	add("two-statements", prog("", locked("\t\t", "\t\t*x = *x + 9\n")+"\t\twg.Done()\n", ""))
	add("loop-then-statement", prog("", "\t\tfor i := uint64(0); i < 2; i++ {\n"+locked("\t\t\t", "\t\t\t*x = *x + 1\n")+"\t\t}\n\t\twg.Done()\n", ""))
	add("statement-then-loop", prog("", locked("\t\t", "\t\t*x = *x + 1\n")+"\t\tfor i := uint64(0); i < 2; i++ {\n"+locked("\t\t\t", "\t\t\t*x = *x + 1\n\t\t\tif i == 1 {\n\t\t\t\twg.Done()\n\t\t\t}\n")+"\t\t}\n", ""))
	add("for-three-clause-then-spawner-work", prog("", "\t\tfor i := uint64(0); i < 3; i++ {\n"+locked("\t\t\t", "\t\t\t*x = *x * 2\n\t\t\tif i == 2 {\n\t\t\t\twg.Done()\n\t\t\t}\n")+"\t\t}\n", "\t*x = *x + 1\n"))
	// the same single-statement bodies without the spawner holding a lock: what the thread's loop sees is
	// decided by what the spawner does AFTER the go statement, under the lock
	add("for-waits-for-spawner", "\tmu := new(sync.Mutex)\n\twg := new(sync.WaitGroup)\n\tx := new(uint64)\n\tgo1 := new(bool)\n\twg.Add(1)\n\tgo func() {\n\t\tfor {\n\t\t\tmu.Lock()\n\t\t\tif *go1 {\n\t\t\t\t*x = *x + 10\n\t\t\t\tmu.Unlock()\n\t\t\t\twg.Done()\n\t\t\t\tbreak\n\t\t\t}\n\t\t\tmu.Unlock()\n\t\t\tcontinue\n\t\t}\n\t}()\n\tmu.Lock()\n\t*x = 5\n\t*go1 = true\n\tmu.Unlock()\n\twg.Wait()\n\tmu.Lock()\n\tr := *x\n\tmu.Unlock()\n\treturn r\n")
	cp.Source = b.String()
	return cp
}
