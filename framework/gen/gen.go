// Package gen generates Go packages in the Goose subset (E3): a seeded random
// typed program generator plus directed enumerations. Every function under
// test is reached through closed case functions `func caseN() T`.
package gen

import (
	"fmt"
	"sort"
	"strings"

	"verif/core"
)

// Options switches individual generator atoms. The Known* atoms produce
// constructs for which a known finding exists; they are off in normal runs
// (quarantine) and on only in the pinned witnesses.
type Options struct {
	MaxStmts  int
	MaxDepth  int
	NumFuncs  int
	NumCases  int
	Shadowing bool // re-declare outer names in inner scopes (if/loop bodies, closures, range binders)
	// Ticks: every generated function takes a trailing counter tk *uint64, and sub-expressions are wrapped at
	// random in tickNN(tk, e), the identity on e that also counts its evaluations. The case returns the count
	// next to the results, so an operand that the translation evaluates twice, or not at all, or under the
	// wrong condition, is observable whatever its value. The wrappers return their argument, so the order in
	// which Go and GooseLang evaluate operands (left-to-right vs right-to-left) does not matter.
	Ticks bool
	// quarantined atoms (known findings)
	KnownForInitShadow  bool // for-init variable that hides a live outer variable
	KnownBareBlock      bool // bare block declaring a name that hides a live outer variable (repaired in /repo: on by default)
	KnownIncDecNarrow   bool // ++/-- on uint32 / uint8 variables
	KnownByteConv       bool // byte(x) of a wider integer
	KnownLoopVarCapture bool // closure capturing a for-loop variable
	KnownNilMap         bool // reading / ranging over a nil map (var m map[K]V)
	KnownOverlapCopy    bool // copy(dst, src) with dst and src sharing a backing array
}

func DefaultOptions() Options {
	return Options{MaxStmts: 7, MaxDepth: 3, NumFuncs: 6, NumCases: 5, Shadowing: true, Ticks: true, KnownBareBlock: true}
}

type Ty struct {
	K    string // u64 u32 u8 bool string slice ptr struct map
	Elem *Ty
	Key  *Ty
	S    *StructT
}

type StructT struct {
	Name   string
	Fields []Field
}

type Field struct {
	Name string
	T    *Ty
}

var (
	TU64  = &Ty{K: "u64"}
	TU32  = &Ty{K: "u32"}
	TU8   = &Ty{K: "u8"}
	TBool = &Ty{K: "bool"}
	TStr  = &Ty{K: "string"}
)

func (t *Ty) Go() string {
	switch t.K {
	case "u64":
		return "uint64"
	case "u32":
		return "uint32"
	case "u8":
		return "byte" // goose knows the 8-bit type only under this spelling
	case "bool":
		return "bool"
	case "string":
		return "string"
	case "slice":
		return "[]" + t.Elem.Go()
	case "ptr":
		return "*" + t.Elem.Go()
	case "struct":
		return t.S.Name
	case "map":
		return "map[" + t.Key.Go() + "]" + t.Elem.Go()
	}
	return "?"
}

// Conv is the spelling of the conversion function to t (goose recognises uint8, not byte).
func (t *Ty) Conv() string {
	if t.K == "u8" {
		return "uint8"
	}
	return t.Go()
}

// conv is Conv that also records that a uint8-spelled expression was produced.
func (g *G) conv(t *Ty) string {
	if t.K == "u8" {
		g.sawU8 = true
	}
	return t.Conv()
}

func (t *Ty) isInt() bool { return t.K == "u64" || t.K == "u32" || t.K == "u8" }

func (t *Ty) width() int {
	switch t.K {
	case "u64":
		return 64
	case "u32":
		return 32
	case "u8":
		return 8
	}
	return 0
}

func (t *Ty) eq(o *Ty) bool {
	if t.K != o.K || t.K == "int" || t.K == "func" {
		return false
	}
	switch t.K {
	case "slice", "ptr":
		return t.Elem.eq(o.Elem)
	case "struct":
		return t.S == o.S
	case "map":
		return t.Key.eq(o.Key) && t.Elem.eq(o.Elem)
	}
	return true
}

type variable struct {
	name       string
	t          *Ty
	assignable bool // declared with var (pointer-wrapped): may be re-assigned
	used       bool
	knownLen   int // for slices with statically known length (>0), else -1
	loopVar    bool
	u8spelled  bool      // static type is spelled uint8 (from a uint8(..) conversion), which goose cannot name
	root       *variable // for a slice obtained by subslicing: the slice whose backing array it shares
	ranging    int       // > 0 inside the body of a range loop over this slice: no append to it there (the inner
	// range of a nest over one slice doubles it on every pass: 3 -> 24 -> 24*2^24 elements)
}

func (v *variable) rootOf() *variable {
	if v.root != nil {
		return v.root
	}
	return v
}

type scope struct {
	vars   []*variable
	parent *scope
}

func (s *scope) lookupAll() []*variable {
	seen := map[string]bool{}
	var out []*variable
	for c := s; c != nil; c = c.parent {
		for i := len(c.vars) - 1; i >= 0; i-- {
			v := c.vars[i]
			if !seen[v.name] {
				seen[v.name] = true
				out = append(out, v)
			}
		}
	}
	return out
}

func (s *scope) visible(name string) *variable {
	for c := s; c != nil; c = c.parent {
		for i := len(c.vars) - 1; i >= 0; i-- {
			if c.vars[i].name == name {
				return c.vars[i]
			}
		}
	}
	return nil
}

type funcSig struct {
	name    string
	params  []*Ty
	results []*Ty
	recv    *Ty // nil or pointer-to-struct / struct
}

// Package is one generated package.
type Package struct {
	Name     string
	Source   string            // the goose-visible file
	Files    map[string]string // file name -> content (all files incl. the driver)
	Cases    []string          // case function names
	Features map[string]int    // atom -> occurrences
}

type G struct {
	rng       *core.Rng
	opt       Options
	structs   []*StructT
	funcs     []*funcSig
	b         strings.Builder
	ind       int
	nameCtr   int
	features  map[string]int
	curFunc   *funcSig
	loopDepth int
	sawU8     bool        // the expression being generated mentions a uint8-spelled operand
	pkgVals   []*variable // package-level constants and globals (read-only in goose)
}

func (g *G) feat(s string) { g.features[s]++ }

func (g *G) line(format string, a ...interface{}) {
	g.b.WriteString(strings.Repeat("\t", g.ind))
	fmt.Fprintf(&g.b, format, a...)
	g.b.WriteString("\n")
}

var varNames = []string{"a", "b", "c", "d", "x", "y", "z", "n", "m", "k", "v", "w", "acc", "tmp", "res", "cur", "lo", "hi", "idx", "cnt",
	"_a", "_tmp", "a_b", "x_1", "_0", "ñ", "Δx", "camelCase", "ALLCAPS", "veryLongIdentifierNameThatGoesOnAndOn", "i", "j", "ok", "err", "s", "t", "p", "q"}

// fresh returns a variable name. With shadowing on it may re-use a name of an
// outer scope (never of the current one).
func (g *G) fresh(sc *scope, allowShadow bool) string {
	if allowShadow && g.opt.Shadowing && sc.parent != nil && g.rng.Chance(35) {
		outer := sc.parent.lookupAll()
		if len(outer) > 0 {
			cand := outer[g.rng.Intn(len(outer))].name
			clash := false
			for _, v := range sc.vars {
				if v.name == cand {
					clash = true
				}
			}
			if !clash {
				g.feat("shadow")
				return cand
			}
		}
	}
	for {
		var n string
		if g.rng.Chance(70) {
			n = varNames[g.rng.Intn(len(varNames))]
		} else {
			g.nameCtr++
			n = fmt.Sprintf("t%d", g.nameCtr)
		}
		if sc.visible(n) == nil {
			return n
		}
		g.nameCtr++
		n = fmt.Sprintf("%s%d", n, g.nameCtr)
		if sc.visible(n) == nil {
			return n
		}
	}
}

// ---------------------------------------------------------------- literals

func (g *G) intLit(t *Ty) string {
	w := t.width()
	var max uint64 = ^uint64(0)
	if w < 64 {
		max = (uint64(1) << uint(w)) - 1
	}
	var v uint64
	switch g.rng.Intn(10) {
	case 0:
		v = 0
	case 1:
		v = 1
	case 2:
		v = max
	case 3:
		v = max - 1
	case 4:
		v = uint64(1) << uint(g.rng.Intn(w))
	case 5:
		v = (uint64(1) << uint(g.rng.Intn(w))) - 1
	case 6, 7:
		v = uint64(g.rng.Intn(20))
	default:
		v = g.rng.U64() & max
	}
	return fmt.Sprintf("%d", v)
}

var strAlphabet = []string{"a", "b", "xyz", "", "hello", "0", " ", "Z9", "goose", "_"}

func (g *G) strLit() string {
	return fmt.Sprintf("%q", strAlphabet[g.rng.Intn(len(strAlphabet))]+strAlphabet[g.rng.Intn(len(strAlphabet))])
}

// ---------------------------------------------------------------- expressions

func (g *G) varsOf(sc *scope, t *Ty) []*variable {
	var out []*variable
	for _, v := range sc.lookupAll() {
		if v.t.eq(t) {
			out = append(out, v)
		}
	}
	return out
}

func (g *G) useVar(v *variable) string {
	v.used = true
	if v.u8spelled {
		g.sawU8 = true
	}
	return v.name
}

// expr generates an expression of type t (side-effect free except for evaluation counting, see Options.Ticks).
func (g *G) expr(sc *scope, t *Ty, depth int) string {
	e := g.expr0(sc, t, depth)
	if g.opt.Ticks && g.curFunc != nil && g.rng.Chance(7) {
		fn := map[string]string{"u64": "tick64", "u32": "tick32", "u8": "tick8", "bool": "tickB", "string": "tickS"}[t.K]
		if fn != "" && e != "" {
			g.feat("tick-" + t.K)
			return fmt.Sprintf("%s(tk, %s)", fn, e)
		}
	}
	return e
}

func (g *G) expr0(sc *scope, t *Ty, depth int) string {
	switch {
	case t.isInt():
		return g.intExpr(sc, t, depth)
	case t.K == "bool":
		return g.boolExpr(sc, t, depth)
	case t.K == "string":
		return g.strExpr(sc, depth)
	}
	vs := g.varsOf(sc, t)
	if len(vs) > 0 && g.rng.Chance(60) {
		return g.useVar(vs[g.rng.Intn(len(vs))])
	}
	switch t.K {
	case "slice":
		n := 1 + g.rng.Intn(5)
		if g.rng.Chance(30) && t.Elem.isInt() {
			g.feat("slice-singleton-literal")
			return fmt.Sprintf("[]%s{%s}", t.Elem.Go(), g.expr(sc, t.Elem, depth+1))
		}
		if t.Elem.K == "u8" && g.rng.Chance(25) {
			g.feat("string-to-bytes")
			return fmt.Sprintf("[]byte(%s)", g.strExpr(sc, depth+1))
		}
		g.feat("make-slice")
		return fmt.Sprintf("make(%s, %d)", t.Go(), n)
	case "ptr":
		if t.Elem.K == "struct" {
			if g.rng.Bool() {
				g.feat("struct-alloc-literal")
				return "&" + g.structLit(sc, t.Elem.S, depth+1)
			}
			g.feat("new-struct")
			return fmt.Sprintf("new(%s)", t.Elem.Go())
		}
		g.feat("new-basic")
		return fmt.Sprintf("new(%s)", t.Elem.Go())
	case "struct":
		return g.structLit(sc, t.S, depth+1)
	case "map":
		g.feat("make-map")
		return fmt.Sprintf("make(%s)", t.Go())
	}
	return "nil"
}

func (g *G) structLit(sc *scope, s *StructT, depth int) string {
	g.feat("struct-literal")
	var parts []string
	for _, f := range s.Fields {
		if g.rng.Chance(70) {
			if f.T.K == "slice" || f.T.K == "ptr" || f.T.K == "map" || f.T.K == "struct" {
				if depth > 2 {
					continue
				}
			}
			parts = append(parts, fmt.Sprintf("%s: %s", f.Name, g.expr(sc, f.T, depth+1)))
		}
	}
	return fmt.Sprintf("%s{%s}", s.Name, strings.Join(parts, ", "))
}

var arithOps = []string{"+", "-", "*", "/", "%", "&", "|", "^", "<<", ">>"}

func (g *G) intAtom(sc *scope, t *Ty) string {
	if g.rng.Chance(6) {
		var pv []*variable
		for _, v := range g.pkgVals {
			if v.t.eq(t) && sc.visible(v.name) == nil {
				pv = append(pv, v)
			}
		}
		if len(pv) > 0 {
			g.feat("package-level-value")
			return pv[g.rng.Intn(len(pv))].name
		}
	}
	vs := g.varsOf(sc, t)
	if len(vs) > 0 && g.rng.Chance(75) {
		return g.useVar(vs[g.rng.Intn(len(vs))])
	}
	return ""
}

// nonConst reports whether an expression text contains a variable/call (not only literals).
func nonConst(s string) bool {
	// drop string literals and the names of types / boolean constants, then look for identifiers
	var b strings.Builder
	inStr := false
	for i := 0; i < len(s); i++ {
		c := s[i]
		if c == '"' {
			inStr = !inStr
			continue
		}
		if inStr {
			if c == '\\' {
				i++
			}
			continue
		}
		b.WriteByte(c)
	}
	t := b.String()
	for _, w := range []string{"uint64", "uint32", "uint8", "byte", "true", "false"} {
		t = strings.ReplaceAll(t, w, "")
	}
	for _, c := range t {
		if (c >= 'a' && c <= 'z') || (c >= 'A' && c <= 'Z') || c == '_' || c > 127 {
			return true
		}
	}
	return false
}

func (g *G) intExpr(sc *scope, t *Ty, depth int) string {
	if depth >= g.opt.MaxDepth || g.rng.Chance(25) {
		if a := g.intAtom(sc, t); a != "" {
			return a
		}
		// a literal alone gets the expected type from its context (typed constant conversion keeps goose honest)
		g.feat("int-literal-" + t.K)
		return fmt.Sprintf("%s(%s)", g.conv(t), g.intLit(t))
	}
	switch g.rng.Intn(12) {
	case 0, 1, 2, 3, 4:
		op := arithOps[g.rng.Intn(len(arithOps))]
		l := g.intExpr(sc, t, depth+1)
		var r string
		switch op {
		case "/", "%":
			r = fmt.Sprintf("(%s | 1)", g.intExpr(sc, t, depth+1))
		case "<<", ">>":
			r = fmt.Sprintf("(%s %% %d)", g.intExpr(sc, t, depth+1), t.width())
		default:
			if g.rng.Chance(30) && nonConst(l) {
				r = g.intLit(t) // untyped literal next to a typed non-constant operand
				g.feat("binop-literal-operand-" + t.K)
			} else {
				r = g.intExpr(sc, t, depth+1)
			}
		}
		if !nonConst(l) && !nonConst(r) {
			return l
		}
		if (op == "<<" || op == ">>") && !nonConst(r) {
			r = fmt.Sprintf("%d", g.rng.Intn(t.width()))
		}
		if (op == "/" || op == "%") && !nonConst(r) {
			r = fmt.Sprintf("%d", 1+g.rng.Intn(7))
		}
		g.feat("binop" + op + "-" + t.K)
		if g.rng.Chance(15) {
			l, r = r, l
			if op == "/" || op == "%" || op == "<<" || op == ">>" || op == "-" {
				l, r = r, l
			}
		}
		return fmt.Sprintf("(%s %s %s)", l, op, r)
	case 5:
		// conversion from another width
		var from *Ty
		for {
			from = []*Ty{TU64, TU32, TU8}[g.rng.Intn(3)]
			if from.K != t.K {
				break
			}
		}
		inner := g.intExpr(sc, from, depth+1)
		if !nonConst(inner) {
			return fmt.Sprintf("%s(%s)", g.conv(t), g.intLit(t))
		}
		g.feat("conv-" + from.K + "-to-" + t.K)
		return fmt.Sprintf("%s(%s)", g.conv(t), inner)
	case 6:
		inner := g.intExpr(sc, t, depth+1)
		if !nonConst(inner) {
			return inner
		}
		g.feat("complement-" + t.K)
		return fmt.Sprintf("(^%s)", inner)
	case 7:
		// length of something
		if t.K == "u64" {
			for _, v := range sc.lookupAll() {
				if v.t.K == "slice" && g.rng.Chance(50) {
					g.feat("len-slice")
					return fmt.Sprintf("uint64(len(%s))", g.useVar(v))
				}
				if v.t.K == "string" && g.rng.Chance(50) {
					g.feat("len-string")
					return fmt.Sprintf("uint64(len(%s))", g.useVar(v))
				}
				if v.t.K == "map" && g.rng.Chance(50) {
					g.feat("len-map")
					return fmt.Sprintf("uint64(len(%s))", g.useVar(v))
				}
			}
		}
	case 8:
		// element of a slice with statically known length
		for _, v := range sc.lookupAll() {
			if v.t.K == "slice" && v.t.Elem.eq(t) && v.knownLen > 0 && g.rng.Chance(60) {
				g.feat("index-slice-" + t.K)
				return fmt.Sprintf("%s[%d]", g.useVar(v), g.rng.Intn(v.knownLen))
			}
		}
	case 9:
		// field through value or pointer, deref
		for _, v := range sc.lookupAll() {
			if v.t.K == "struct" || (v.t.K == "ptr" && v.t.Elem.K == "struct") {
				s := v.t.S
				via := "value"
				if v.t.K == "ptr" {
					s = v.t.Elem.S
					via = "pointer"
				}
				for _, f := range s.Fields {
					if f.T.eq(t) && g.rng.Chance(50) {
						g.feat("field-read-via-" + via)
						return fmt.Sprintf("%s.%s", g.useVar(v), f.Name)
					}
				}
			}
			if v.t.K == "ptr" && v.t.Elem.eq(t) && g.rng.Chance(40) {
				g.feat("deref-" + t.K)
				return fmt.Sprintf("(*%s)", g.useVar(v))
			}
			if v.t.K == "map" && v.t.Elem.eq(t) && g.rng.Chance(40) {
				g.feat("map-get")
				return fmt.Sprintf("%s[%s]", g.useVar(v), g.expr(sc, v.t.Key, depth+1))
			}
		}
	case 10:
		// call of an earlier pure function with this result type
		if c := g.callExpr(sc, t, depth); c != "" {
			return c
		}
	case 11:
		if t.K == "u64" || t.K == "u32" {
			for _, v := range sc.lookupAll() {
				need := 8
				fn := "UInt64Get"
				if t.K == "u32" {
					need, fn = 4, "UInt32Get"
				}
				if v.t.K == "slice" && v.t.Elem.K == "u8" && v.knownLen >= need {
					g.feat("machine." + fn)
					return fmt.Sprintf("machine.%s(%s)", fn, g.useVar(v))
				}
			}
		}
	}
	if a := g.intAtom(sc, t); a != "" {
		return a
	}
	return fmt.Sprintf("%s(%s)", g.conv(t), g.intLit(t))
}

func (g *G) callExpr(sc *scope, t *Ty, depth int) string {
	if g.loopDepth > 0 {
		return "" // keeps the running time of generated programs polynomial
	}
	var cands []*funcSig
	for _, f := range g.funcs {
		if f == g.curFunc {
			continue
		}
		if len(f.results) != 1 || !f.results[0].eq(t) {
			continue
		}
		if f.recv != nil {
			continue // methods are called by methodCallStmt only
		}
		cands = append(cands, f)
	}
	if len(cands) == 0 {
		return ""
	}
	f := cands[g.rng.Intn(len(cands))]
	var args []string
	for _, p := range f.params {
		args = append(args, g.expr(sc, p, depth+1))
	}
	g.feat("call")
	if g.opt.Ticks {
		args = append(args, "tk")
	}
	return fmt.Sprintf("%s(%s)", f.name, strings.Join(args, ", "))
}

var cmpOps = []string{"==", "!=", "<", "<=", ">", ">="}

func (g *G) boolExpr(sc *scope, t *Ty, depth int) string {
	if depth >= g.opt.MaxDepth {
		vs := g.varsOf(sc, TBool)
		if len(vs) > 0 && g.rng.Bool() {
			return g.useVar(vs[g.rng.Intn(len(vs))])
		}
		return g.cmpExpr(sc, depth)
	}
	switch g.rng.Intn(8) {
	case 0, 1, 2:
		return g.cmpExpr(sc, depth)
	case 3:
		g.feat("land")
		return fmt.Sprintf("(%s && %s)", g.boolExpr(sc, t, depth+1), g.boolExpr(sc, t, depth+1))
	case 4:
		g.feat("lor")
		return fmt.Sprintf("(%s || %s)", g.boolExpr(sc, t, depth+1), g.boolExpr(sc, t, depth+1))
	case 5:
		g.feat("lnot")
		return fmt.Sprintf("(!%s)", g.boolExpr(sc, t, depth+1))
	case 6:
		op := []string{"==", "!="}[g.rng.Intn(2)]
		l, r := g.strExpr(sc, depth+1), g.strExpr(sc, depth+1)
		if nonConst(l) || nonConst(r) {
			g.feat("strcmp" + op)
			return fmt.Sprintf("(%s %s %s)", l, op, r)
		}
	case 7:
		vs := g.varsOf(sc, TBool)
		if len(vs) > 0 {
			return g.useVar(vs[g.rng.Intn(len(vs))])
		}
		if c := g.callExpr(sc, TBool, depth); c != "" {
			return c
		}
	}
	if g.rng.Bool() {
		return "true"
	}
	return "false"
}

func (g *G) cmpExpr(sc *scope, depth int) string {
	for try := 0; try < 4; try++ {
		it := []*Ty{TU64, TU32, TU8}[g.rng.Intn(3)]
		op := cmpOps[g.rng.Intn(len(cmpOps))]
		l, r := g.intExpr(sc, it, depth+1), g.intExpr(sc, it, depth+1)
		if nonConst(l) || nonConst(r) {
			g.feat("cmp" + op + "-" + it.K)
			return fmt.Sprintf("(%s %s %s)", l, op, r)
		}
	}
	if g.rng.Bool() {
		return "true"
	}
	return "false"
}

func (g *G) strExpr(sc *scope, depth int) string {
	vs := g.varsOf(sc, TStr)
	if depth >= g.opt.MaxDepth || g.rng.Chance(40) {
		if len(vs) > 0 && g.rng.Chance(60) {
			return g.useVar(vs[g.rng.Intn(len(vs))])
		}
		return g.strLit()
	}
	switch g.rng.Intn(4) {
	case 0, 1:
		g.feat("string-concat")
		return fmt.Sprintf("(%s + %s)", g.strExpr(sc, depth+1), g.strExpr(sc, depth+1))
	case 2:
		for _, v := range sc.lookupAll() {
			if v.t.K == "slice" && v.t.Elem.K == "u8" {
				g.feat("bytes-to-string")
				return fmt.Sprintf("string(%s)", g.useVar(v))
			}
		}
	case 3:
		g.feat("uint64-to-string")
		return fmt.Sprintf("machine.UInt64ToString(%s)", g.intExpr(sc, TU64, depth+1))
	}
	return g.strLit()
}

// ---------------------------------------------------------------- statements

type tailKind int

const (
	tailReturn tailKind = iota // function body: must end in return
	tailLoop                   // loop body: may end in break/continue
	tailPlain                  // nested plain block (if-branch in the middle of a block)
)

func (g *G) randType(allowCompound bool) *Ty {
	r := g.rng.Intn(100)
	switch {
	case r < 30:
		return TU64
	case r < 42:
		return TU32
	case r < 54:
		return TU8
	case r < 64:
		return TBool
	case r < 70:
		return TStr
	}
	if !allowCompound {
		return TU64
	}
	switch {
	case r < 80:
		return &Ty{K: "slice", Elem: []*Ty{TU64, TU8, TU32}[g.rng.Intn(3)]}
	case r < 86:
		if len(g.structs) > 0 {
			return &Ty{K: "ptr", Elem: &Ty{K: "struct", S: g.structs[g.rng.Intn(len(g.structs))]}}
		}
	case r < 90:
		if len(g.structs) > 0 {
			return &Ty{K: "struct", S: g.structs[g.rng.Intn(len(g.structs))]}
		}
	case r < 94:
		return &Ty{K: "ptr", Elem: []*Ty{TU64, TU32, TU8, TBool}[g.rng.Intn(4)]}
	default:
		return &Ty{K: "map", Key: TU64, Elem: []*Ty{TU64, TU32, TBool}[g.rng.Intn(3)]}
	}
	return TU64
}

func (g *G) knownLenOf(t *Ty, e string) int {
	if t.K != "slice" {
		return -1
	}
	var n int
	if _, err := fmt.Sscanf(e, "make("+t.Go()+", %d)", &n); err == nil {
		return n
	}
	if strings.HasPrefix(e, "[]"+t.Elem.Go()+"{") {
		return 1
	}
	return -1
}

// declare emits a declaration of a new variable.
func (g *G) declare(sc *scope, allowShadow bool) {
	t := g.randType(true)
	form := g.rng.Intn(4)
	if form == 2 && t.K == "map" && !g.opt.KnownNilMap {
		form = 1
	}
	if form == 2 && t.K == "ptr" {
		form = 1 // a nil pointer would only be dereferenced (Go panics; its compiler may even elide the check)
	}
	if form == 2 {
		name := g.fresh(sc, allowShadow)
		g.feat("var-zero")
		g.line("var %s %s", name, t.Go())
		sc.vars = append(sc.vars, &variable{name: name, t: t, assignable: true, knownLen: -1})
		return
	}
	g.sawU8 = false
	e := g.expr(sc, t, 0)
	name := g.fresh(sc, allowShadow)
	v := &variable{name: name, t: t, knownLen: g.knownLenOf(t, e)}
	if form != 0 && g.sawU8 {
		// the static type of a uint8(..) conversion is spelled uint8, which goose cannot name in
		// the cell type of a var declaration; such initialisers use the define form
		form = 0
	}
	if form == 0 && t.K == "u8" && g.sawU8 {
		v.u8spelled = true
	}
	switch form {
	case 0:
		g.feat("define")
		g.line("%s := %s", name, e)
	case 1:
		g.feat("var-typed-init")
		g.line("var %s %s = %s", name, t.Go(), e)
		v.assignable = true
	case 3:
		g.feat("var-untyped-init")
		g.line("var %s = %s", name, e)
		v.assignable = true
	}
	sc.vars = append(sc.vars, v)
}

var assignOps = []string{"=", "+=", "-=", "|=", "&=", "^="}

// assign emits an assignment through some l-value kind.
func (g *G) assign(sc *scope) bool {
	all := sc.lookupAll()
	g.rng.Intn(1)
	perm := g.rng.Intn(len(all) + 1)
	for k := 0; k < len(all); k++ {
		v := all[(k+perm)%len(all)]
		if v.loopVar {
			continue
		}
		switch {
		case v.assignable && (v.t.isInt() || v.t.K == "bool" || v.t.K == "string"):
			op := "="
			if v.t.isInt() {
				op = assignOps[g.rng.Intn(len(assignOps))]
			} else if v.t.K == "string" && g.rng.Bool() {
				op = "+="
			}
			g.feat("assign-var" + op + "-" + v.t.K)
			var rhs string
			if v.t.K == "string" && g.loopDepth > 0 {
				// a string that is rebuilt from strings inside nested loops grows exponentially (res += res + res
				// in a 4x5x4 nest never finishes natively): inside loops only literals are appended / assigned
				rhs = g.strLit()
			} else {
				rhs = g.expr(sc, v.t, 1)
			}
			g.line("%s %s %s", v.name, op, rhs)
			if v.t.isInt() && (v.t.K == "u64" || g.opt.KnownIncDecNarrow) && g.rng.Chance(25) {
				g.feat("incdec-" + v.t.K)
				g.line("%s%s", v.name, []string{"++", "--"}[g.rng.Intn(2)])
			}
			return true
		case v.assignable && v.t.K == "slice" && v.ranging == 0 && g.rng.Chance(50):
			g.feat("append-linear-" + v.t.Elem.K)
			v.used = true
			g.line("%s = append(%s, %s)", v.name, v.name, g.expr(sc, v.t.Elem, 1))
			if v.knownLen > 0 {
				v.knownLen++
			} else {
				v.knownLen = -1
			}
			return true
		case v.t.K == "slice" && v.knownLen > 0 && v.t.Elem.isInt():
			op := assignOps[g.rng.Intn(len(assignOps))]
			g.feat("assign-index" + op)
			v.used = true
			g.line("%s[%d] %s %s", v.name, g.rng.Intn(v.knownLen), op, g.expr(sc, v.t.Elem, 1))
			return true
		case v.t.K == "ptr" && v.t.Elem.K == "struct" || (v.t.K == "struct" && v.assignable):
			s := v.t.S
			via := "var-struct"
			if v.t.K == "ptr" {
				s = v.t.Elem.S
				via = "pointer"
			}
			var fs []Field
			for _, f := range s.Fields {
				if f.T.isInt() || f.T.K == "bool" || f.T.K == "string" {
					fs = append(fs, f)
				}
			}
			if len(fs) == 0 {
				continue
			}
			f := fs[g.rng.Intn(len(fs))]
			op := "="
			if f.T.isInt() {
				op = assignOps[g.rng.Intn(len(assignOps))]
			}
			g.feat("assign-field-via-" + via + op)
			if v.t.K == "ptr" {
				v.used = true
			}
			g.line("%s.%s %s %s", v.name, f.Name, op, g.expr(sc, f.T, 1))
			return true
		case v.t.K == "ptr" && (v.t.Elem.isInt() || v.t.Elem.K == "bool"):
			op := "="
			if v.t.Elem.isInt() {
				op = assignOps[g.rng.Intn(len(assignOps))]
			}
			g.feat("assign-deref" + op)
			v.used = true
			g.line("*%s %s %s", v.name, op, g.expr(sc, v.t.Elem, 1))
			return true
		case v.t.K == "map":
			g.feat("map-insert")
			v.used = true
			if g.rng.Chance(25) {
				g.feat("map-delete")
				g.line("delete(%s, %s)", v.name, g.expr(sc, v.t.Key, 1))
				return true
			}
			g.line("%s[%s] = %s", v.name, g.expr(sc, v.t.Key, 1), g.expr(sc, v.t.Elem, 1))
			return true
		}
	}
	return false
}

// stmts emits up to n statements followed by a terminator appropriate for tail.
func (g *G) stmts(sc *scope, n int, depth int, tail tailKind) {
	for i := 0; i < n; i++ {
		g.stmt(sc, depth, tail, n-i-1)
	}
	g.finish(sc, depth, tail)
}

func (g *G) stmt(sc *scope, depth int, tail tailKind, remaining int) {
	r := g.rng.Intn(100)
	switch {
	case r < 28:
		g.declare(sc, depth > 0)
	case r < 50:
		if !g.assign(sc) {
			g.declare(sc, depth > 0)
		}
	case r < 62 && depth < g.opt.MaxDepth:
		g.ifStmt(sc, depth, tail)
	case r < 72 && depth < g.opt.MaxDepth:
		g.forStmt(sc, depth)
	case r < 79 && depth < g.opt.MaxDepth:
		g.rangeStmt(sc, depth)
	case r < 84:
		g.multiAssign(sc)
	case r < 88 && depth < g.opt.MaxDepth:
		g.closureStmt(sc, depth)
	case r < 91:
		g.encodeStmt(sc)
	case r < 93:
		g.copyStmt(sc)
	case r < 95:
		g.sliceStmt(sc)
	case r < 96:
		g.commaOkStmt(sc)
	case r < 97:
		g.appendSpreadStmt(sc)
	case r < 98:
		g.methodCallStmt(sc)
	case g.opt.KnownBareBlock && depth < g.opt.MaxDepth:
		// a bare block: a scope of its own, may re-declare outer names
		g.feat("bare-block")
		g.line("{")
		g.ind++
		inner := &scope{parent: sc}
		for i := 0; i < 1+g.rng.Intn(3); i++ {
			g.stmt(inner, depth+1, tailPlain, 0)
		}
		g.useAll(inner)
		g.ind--
		g.line("}")
	default:
		g.declare(sc, depth > 0)
	}
}

// methodCallStmt: t := r.m(args) as a statement of its own, with variables and literals as arguments. A
// pointer-receiver method may write the receiver's fields, and Go leaves the order between a call and the
// reads of variables in the same expression unspecified: the call is therefore never part of a larger
// expression. The receiver has exactly the method's receiver type (the mixed forms are recorded findings).
func (g *G) methodCallStmt(sc *scope) {
	if g.loopDepth > 0 {
		g.declare(sc, false)
		return
	}
	perm := g.rng.Intn(len(g.funcs) + 1)
	for k := 0; k < len(g.funcs); k++ {
		f := g.funcs[(k+perm)%len(g.funcs)]
		if f.recv == nil || f == g.curFunc || len(f.results) != 1 {
			continue
		}
		rv := g.varsOf(sc, f.recv)
		if len(rv) == 0 {
			continue
		}
		r := rv[g.rng.Intn(len(rv))]
		var args []string
		for _, p := range f.params {
			args = append(args, g.expr(sc, p, g.opt.MaxDepth))
		}
		n := g.fresh(sc, false)
		g.feat("method-call-" + f.recv.K)
		if g.opt.Ticks {
			args = append(args, "tk")
		}
		g.line("%s := %s.%s(%s)", n, g.useVar(r), f.name, strings.Join(args, ", "))
		sc.vars = append(sc.vars, &variable{name: n, t: f.results[0], knownLen: -1})
		return
	}
	g.declare(sc, false)
}

// commaOkStmt: v, ok := m[k]
func (g *G) commaOkStmt(sc *scope) {
	for _, m := range sc.lookupAll() {
		if m.t.K == "map" {
			m.used = true
			k := g.expr(sc, m.t.Key, 1)
			vn := g.fresh(sc, false)
			sc.vars = append(sc.vars, &variable{name: vn, t: m.t.Elem, knownLen: -1})
			on := g.fresh(sc, false)
			sc.vars = append(sc.vars, &variable{name: on, t: TBool, knownLen: -1})
			g.feat("map-get-comma-ok")
			g.line("%s, %s := %s[%s]", vn, on, m.name, k)
			return
		}
	}
	g.declare(sc, false)
}

// appendSpreadStmt: a = append(a, b...) (outside loops: the length at most doubles)
func (g *G) appendSpreadStmt(sc *scope) {
	if g.loopDepth == 0 {
		all := sc.lookupAll()
		for _, a := range all {
			if a.t.K != "slice" || !a.assignable || a.loopVar || a.ranging > 0 {
				continue
			}
			for _, b := range all {
				if b.t.K == "slice" && b.t.eq(a.t) {
					a.used, b.used = true, true
					g.feat("append-spread-" + a.t.Elem.K)
					g.line("%s = append(%s, %s...)", a.name, a.name, b.name)
					a.knownLen = -1
					return
				}
			}
		}
	}
	g.declare(sc, false)
}

func (g *G) retExprs(sc *scope) string {
	var parts []string
	for _, t := range g.curFunc.results {
		parts = append(parts, g.expr(sc, t, 1))
	}
	return strings.Join(parts, ", ")
}

// finish closes a statement list according to its tail kind, after marking unused variables used.
func (g *G) finish(sc *scope, depth int, tail tailKind) {
	g.useAll(sc)
	switch tail {
	case tailReturn:
		if g.rng.Chance(25) && depth < g.opt.MaxDepth {
			// if/else both returning in tail position
			g.feat("tail-if-else-return")
			g.line("if %s {", g.boolExpr(sc, TBool, 1))
			g.ind++
			g.stmts(&scope{parent: sc}, g.rng.Intn(2), depth+1, tailReturn)
			g.ind--
			g.line("} else {")
			g.ind++
			g.stmts(&scope{parent: sc}, g.rng.Intn(2), depth+1, tailReturn)
			g.ind--
			g.line("}")
			return
		}
		if len(g.curFunc.results) == 0 {
			if g.rng.Bool() {
				g.line("return")
			}
			return
		}
		g.line("return %s", g.retExprs(sc))
	case tailLoop:
		switch g.rng.Intn(4) {
		case 0:
			g.feat("explicit-continue")
			g.line("continue")
		}
	}
}

// useAll makes every variable declared in this scope used (Go rejects unused locals).
func (g *G) useAll(sc *scope) {
	for _, v := range sc.vars {
		if !v.used {
			v.used = true
			g.feat("blank-assign")
			g.line("_ = %s", v.name)
		}
	}
}

func (g *G) ifStmt(sc *scope, depth int, tail tailKind) {
	cond := g.boolExpr(sc, TBool, 1)
	k := g.rng.Intn(100)
	switch {
	case k < 35 && tail != tailPlain:
		// early exit: then-branch ends in return / break / continue, no else, remainder follows
		g.line("if %s {", cond)
		g.ind++
		inner := &scope{parent: sc}
		n := g.rng.Intn(3)
		for i := 0; i < n; i++ {
			g.stmt(inner, depth+1, tail, n-i-1)
		}
		// nested early exit one level deeper
		if g.rng.Chance(30) && depth+1 < g.opt.MaxDepth {
			g.feat("nested-early-exit")
			g.ifStmt(inner, depth+1, tail)
		}
		g.useAll(inner)
		if tail == tailReturn {
			g.feat("early-return")
			if len(g.curFunc.results) == 0 {
				g.line("return")
			} else {
				g.line("return %s", g.retExprs(inner))
			}
		} else {
			if g.rng.Bool() {
				g.feat("early-break")
				g.line("break")
			} else {
				g.feat("early-continue")
				g.line("continue")
			}
		}
		g.ind--
		g.line("}")
	case k < 70:
		g.feat("if-no-else")
		g.line("if %s {", cond)
		g.ind++
		g.stmts(&scope{parent: sc}, 1+g.rng.Intn(2), depth+1, tailPlain)
		g.ind--
		g.line("}")
	case k < 90:
		g.feat("if-else")
		g.line("if %s {", cond)
		g.ind++
		g.stmts(&scope{parent: sc}, 1+g.rng.Intn(2), depth+1, tailPlain)
		g.ind--
		g.line("} else {")
		g.ind++
		g.stmts(&scope{parent: sc}, 1+g.rng.Intn(2), depth+1, tailPlain)
		g.ind--
		g.line("}")
	default:
		g.feat("else-if-chain")
		g.line("if %s {", cond)
		g.ind++
		g.stmts(&scope{parent: sc}, 1, depth+1, tailPlain)
		g.ind--
		g.line("} else if %s {", g.boolExpr(sc, TBool, 1))
		g.ind++
		g.stmts(&scope{parent: sc}, 1, depth+1, tailPlain)
		g.ind--
		g.line("} else {")
		g.ind++
		g.stmts(&scope{parent: sc}, 1, depth+1, tailPlain)
		g.ind--
		g.line("}")
	}
}

func (g *G) forStmt(sc *scope, depth int) {
	inner := &scope{parent: sc}
	bound := 1 + g.rng.Intn(5)
	// every subset of init / cond / post
	counter := func(feat string) string {
		cv := g.fresh(sc, false)
		g.feat(feat)
		g.line("var %s uint64 = 0", cv)
		sc.vars = append(sc.vars, &variable{name: cv, t: TU64, used: true, loopVar: true, knownLen: -1})
		return cv
	}
	loopVarName := func() string {
		// the loop variable never hides a live outer name (quarantined finding)
		var iv string
		if g.opt.KnownForInitShadow {
			iv = g.fresh(inner, true)
		} else {
			iv = g.fresh(inner, false)
		}
		inner.vars = append(inner.vars, &variable{name: iv, t: TU64, used: true, loopVar: true, knownLen: -1})
		return iv
	}
	switch g.rng.Intn(8) {
	case 0:
		iv := loopVarName()
		g.feat("for-init-cond-post")
		g.line("for %s := uint64(%d); %s < %d; %s++ {", iv, g.rng.Intn(3), iv, bound+2, iv)
	case 1:
		cv := counter("for-cond-only")
		g.line("for %s < %d {", cv, bound)
		g.line("\t%s += 1", cv)
	case 2:
		cv := counter("for-infinite-break")
		g.line("for {")
		g.line("\tif %s >= %d {", cv, bound)
		g.line("\t\tbreak")
		g.line("\t}")
		g.line("\t%s = %s + 1", cv, cv)
	case 3:
		cv := counter("for-cond-post")
		g.line("for ; %s < %d; %s++ {", cv, bound, cv)
	case 4:
		cv := counter("for-post-only")
		g.line("for ; ; %s += 2 {", cv)
		g.line("\tif %s >= %d {", cv, bound)
		g.line("\t\tbreak")
		g.line("\t}")
	case 5:
		iv := loopVarName()
		g.feat("for-init-post")
		g.line("for %s := uint64(0); ; %s++ {", iv, iv)
		g.line("\tif %s >= %d {", iv, bound)
		g.line("\t\tbreak")
		g.line("\t}")
	case 6:
		iv := loopVarName()
		g.feat("for-init-cond")
		g.line("for %s := uint64(%d); %s < %d; {", iv, g.rng.Intn(2), iv, bound+1)
		g.line("\t%s = %s + 1", iv, iv)
	case 7:
		iv := loopVarName()
		g.feat("for-init-only")
		g.line("for %s := uint64(0); ; {", iv)
		g.line("\tif %s >= %d {", iv, bound)
		g.line("\t\tbreak")
		g.line("\t}")
		g.line("\t%s += 1", iv)
	}
	g.ind++
	g.loopDepth++
	body := &scope{parent: inner}
	g.stmts(body, 1+g.rng.Intn(3), depth+1, tailLoop)
	g.loopDepth--
	g.ind--
	g.line("}")
}

func (g *G) rangeStmt(sc *scope, depth int) {
	for _, v := range sc.lookupAll() {
		if v.t.K == "slice" && g.rng.Chance(70) {
			inner := &scope{parent: sc}
			form := g.rng.Intn(3)
			v.used = true
			src := v.name
			// binders may hide outer names (also the slice itself); the key has Go type int
			kn := g.fresh(inner, true)
			kv := &variable{name: kn, t: &Ty{K: "int"}, used: true, loopVar: true, knownLen: -1}
			switch form {
			case 0:
				inner.vars = append(inner.vars, kv)
				vn := g.fresh(inner, true)
				inner.vars = append(inner.vars, &variable{name: vn, t: v.t.Elem, used: true, loopVar: true, knownLen: -1})
				g.feat("range-slice-key-val")
				g.line("for %s, %s := range %s {", kn, vn, src)
				g.line("\t_ = %s", kn)
				g.line("\t_ = %s", vn)
			case 1:
				vn := kn
				inner.vars = append(inner.vars, &variable{name: vn, t: v.t.Elem, used: true, loopVar: true, knownLen: -1})
				g.feat("range-slice-val")
				g.line("for _, %s := range %s {", vn, src)
				g.line("\t_ = %s", vn)
			case 2:
				inner.vars = append(inner.vars, kv)
				g.feat("range-slice-key")
				g.line("for %s := range %s {", kn, src)
				g.line("\t_ = %s", kn)
			}
			g.ind++
			g.loopDepth++
			v.ranging++
			g.stmts(&scope{parent: inner}, 1+g.rng.Intn(2), depth+1, tailPlain)
			v.ranging--
			g.loopDepth--
			g.ind--
			g.line("}")
			return
		}
		if v.t.K == "map" && v.t.Elem.isInt() && g.rng.Chance(70) {
			// order-insensitive body: commutative accumulation only
			acc := g.fresh(sc, false)
			g.feat("range-map-sum")
			g.line("var %s %s = 0", acc, v.t.Elem.Go())
			sc.vars = append(sc.vars, &variable{name: acc, t: v.t.Elem, assignable: true, used: false, knownLen: -1})
			v.used = true
			g.line("for k0, v0 := range %s {", v.name)
			g.line("\t%s += v0 ^ %s(k0)", acc, v.t.Elem.Conv())
			g.line("}")
			return
		}
	}
	g.forStmt(sc, depth)
}

func (g *G) multiAssign(sc *scope) {
	if g.loopDepth > 0 {
		g.declare(sc, false)
		return
	}
	var cands []*funcSig
	for _, f := range g.funcs {
		if f != g.curFunc && f.recv == nil && len(f.results) >= 2 {
			cands = append(cands, f)
		}
	}
	if len(cands) == 0 {
		g.declare(sc, false)
		return
	}
	f := cands[g.rng.Intn(len(cands))]
	var args []string
	for _, p := range f.params {
		args = append(args, g.expr(sc, p, 1))
	}
	var names []string
	var nv []*variable
	for i, rt := range f.results {
		if g.rng.Chance(20) && i > 0 {
			names = append(names, "_")
			continue
		}
		n := g.fresh(sc, false)
		for _, x := range names {
			if x == n {
				g.nameCtr++
				n = fmt.Sprintf("%s_%d", n, g.nameCtr)
			}
		}
		names = append(names, n)
		nv = append(nv, &variable{name: n, t: rt, knownLen: -1})
	}
	g.feat(fmt.Sprintf("destructure-%d", len(f.results)))
	if g.opt.Ticks {
		args = append(args, "tk")
	}
	g.line("%s := %s(%s)", strings.Join(names, ", "), f.name, strings.Join(args, ", "))
	sc.vars = append(sc.vars, nv...)
}

func (g *G) closureStmt(sc *scope, depth int) {
	pt := g.randType(false)
	rt := g.randType(false)
	name := g.fresh(sc, false)
	pn := "p" + name
	if g.opt.Shadowing && g.rng.Chance(40) {
		outer := sc.lookupAll()
		if len(outer) > 0 {
			pn = outer[g.rng.Intn(len(outer))].name
			g.feat("closure-param-shadows")
		}
	}
	g.feat("closure")
	g.line("%s := func(%s %s) %s {", name, pn, pt.Go(), rt.Go())
	g.ind++
	saved := g.curFunc
	g.curFunc = &funcSig{name: name, params: []*Ty{pt}, results: []*Ty{rt}}
	// closures see loop variables only in the quarantined atom
	body := &scope{parent: g.closureParent(sc)}
	body.vars = append(body.vars, &variable{name: pn, t: pt, used: true, knownLen: -1})
	g.stmts(body, g.rng.Intn(3), depth+1, tailReturn)
	g.curFunc = saved
	g.ind--
	g.line("}")
	sc.vars = append(sc.vars, &variable{name: name, t: &Ty{K: "func"}, used: true, knownLen: -1})
	res := g.fresh(sc, false)
	g.line("%s := %s(%s)", res, name, g.expr(sc, pt, 1))
	sc.vars = append(sc.vars, &variable{name: res, t: rt, knownLen: -1})
}

// closureParent hides for-loop variables from closure bodies unless the quarantined atom is on.
func (g *G) closureParent(sc *scope) *scope {
	if g.opt.KnownLoopVarCapture {
		return sc
	}
	var keep []*variable
	for _, v := range sc.lookupAll() {
		if !v.loopVar {
			keep = append(keep, v)
		}
	}
	// lookupAll returns innermost first; rebuild a flat scope preserving shadowing order
	flat := &scope{}
	for i := len(keep) - 1; i >= 0; i-- {
		flat.vars = append(flat.vars, keep[i])
	}
	return flat
}

func (g *G) encodeStmt(sc *scope) {
	n := g.fresh(sc, false)
	if g.rng.Bool() {
		g.feat("machine.UInt64Put")
		g.line("%s := make([]byte, %d)", n, 8+g.rng.Intn(4))
		g.line("machine.UInt64Put(%s, %s)", n, g.intExpr(sc, TU64, 1))
		sc.vars = append(sc.vars, &variable{name: n, t: &Ty{K: "slice", Elem: TU8}, knownLen: 8})
	} else {
		g.feat("machine.UInt32Put")
		g.line("%s := make([]byte, %d)", n, 4+g.rng.Intn(6))
		g.line("machine.UInt32Put(%s, %s)", n, g.intExpr(sc, TU32, 1))
		sc.vars = append(sc.vars, &variable{name: n, t: &Ty{K: "slice", Elem: TU8}, knownLen: 4})
	}
}

func (g *G) copyStmt(sc *scope) {
	var ss []*variable
	for _, v := range sc.lookupAll() {
		if v.t.K == "slice" && v.knownLen > 0 {
			ss = append(ss, v)
		}
	}
	for _, d := range ss {
		for _, s := range ss {
			if d != s && d.t.eq(s.t) {
				if d.rootOf() == s.rootOf() && !g.opt.KnownOverlapCopy {
					// copy between slices of one backing array: Go copies as if through a temporary (memmove),
					// GooseLang's SliceCopy copies forward element by element (recorded finding overlapping-copy)
					continue
				}
				g.feat("copy")
				d.used, s.used = true, true
				if g.rng.Bool() {
					n := g.fresh(sc, false)
					g.line("%s := uint64(copy(%s, %s))", n, d.name, s.name)
					sc.vars = append(sc.vars, &variable{name: n, t: TU64})
				} else {
					g.line("copy(%s, %s)", d.name, s.name)
				}
				return
			}
		}
	}
	g.declare(sc, false)
}

func (g *G) sliceStmt(sc *scope) {
	for _, v := range sc.lookupAll() {
		if v.t.K == "slice" && v.knownLen >= 2 {
			lo := g.rng.Intn(v.knownLen)
			hi := lo + g.rng.Intn(v.knownLen-lo+1)
			n := g.fresh(sc, false)
			v.used = true
			var e string
			kl := 0
			switch g.rng.Intn(3) {
			case 0:
				g.feat("subslice-lo-hi")
				e, kl = fmt.Sprintf("%s[%d:%d]", v.name, lo, hi), hi-lo
			case 1:
				g.feat("subslice-lo")
				e, kl = fmt.Sprintf("%s[%d:]", v.name, lo), v.knownLen-lo
			case 2:
				g.feat("subslice-hi")
				e, kl = fmt.Sprintf("%s[:%d]", v.name, hi), hi
			}
			g.line("%s := %s", n, e)
			if kl == 0 {
				kl = -1
			}
			sc.vars = append(sc.vars, &variable{name: n, t: v.t, knownLen: kl, root: v.rootOf()})
			return
		}
	}
	g.declare(sc, false)
}

// ---------------------------------------------------------------- packages

// RandomPackage generates one package of random functions plus closed case functions.
func RandomPackage(rng *core.Rng, name string, opt Options) *Package {
	g := &G{rng: rng, opt: opt, features: map[string]int{}}
	g.line("package %s", name)
	g.line("")
	g.line("import \"github.com/goose-lang/goose/machine\"")
	g.line("")
	g.line("func useMachine(b []byte) uint64 {")
	g.line("\treturn machine.UInt64Get(b)")
	g.line("}")
	g.line("")
	if opt.Ticks {
		for _, tt := range [][2]string{{"tick64", "uint64"}, {"tick32", "uint32"}, {"tick8", "byte"}, {"tickB", "bool"}, {"tickS", "string"}} {
			g.line("func %s(tk *uint64, v %s) %s {", tt[0], tt[1], tt[1])
			g.line("\t*tk = *tk + 1")
			g.line("\treturn v")
			g.line("}")
			g.line("")
		}
	}
	// structs
	ns := 1 + rng.Intn(2)
	for i := 0; i < ns; i++ {
		s := &StructT{Name: fmt.Sprintf("S%d", i)}
		nf := 1 + rng.Intn(4)
		for j := 0; j < nf; j++ {
			var ft *Ty
			switch rng.Intn(8) {
			case 0:
				ft = TU32
			case 1:
				ft = TU8
			case 2:
				ft = TBool
			case 3:
				ft = TStr
			case 4:
				ft = &Ty{K: "slice", Elem: TU8}
			default:
				ft = TU64
			}
			s.Fields = append(s.Fields, Field{Name: fmt.Sprintf("f%d", j), T: ft})
		}
		g.line("type %s struct {", s.Name)
		for _, f := range s.Fields {
			g.line("\t%s %s", f.Name, f.T.Go())
		}
		g.line("}")
		g.line("")
		g.structs = append(g.structs, s)
	}
	// package-level constants and globals (typed, literal initialisers)
	for i := 0; i < rng.Intn(3); i++ {
		t := []*Ty{TU64, TU64, TU32, TU8}[rng.Intn(4)]
		// globals only: a constant would make the expressions it occurs in constant expressions, which the
		// compiler evaluates exactly and rejects on overflow (constants are a place of the C01 matrix)
		kw, nm := "var", fmt.Sprintf("G%d", i)
		g.line("%s %s %s = %s", kw, nm, t.Go(), g.intLit(t))
		g.line("")
		g.pkgVals = append(g.pkgVals, &variable{name: nm, t: t, used: true, knownLen: -1})
	}
	// methods: pointer receivers and value receivers (called only on a receiver of exactly that type)
	for si, st := range g.structs {
		for k := 0; k < rng.Intn(3); k++ {
			f := &funcSig{name: fmt.Sprintf("m%d_%d", si, k)}
			if rng.Bool() {
				f.recv = &Ty{K: "ptr", Elem: &Ty{K: "struct", S: st}}
			} else {
				f.recv = &Ty{K: "struct", S: st}
			}
			for j := 0; j < rng.Intn(3); j++ {
				f.params = append(f.params, g.randType(false))
			}
			f.results = []*Ty{g.randType(false)}
			g.genFunc(f)
			g.funcs = append(g.funcs, f)
		}
	}
	// functions
	for i := 0; i < opt.NumFuncs; i++ {
		f := &funcSig{name: fmt.Sprintf("f%d", i)}
		np := 1 + rng.Intn(4)
		for j := 0; j < np; j++ {
			f.params = append(f.params, g.randType(j >= 2 && rng.Chance(40)))
		}
		nr := 1
		switch rng.Intn(10) {
		case 0:
			nr = 2
		case 1:
			nr = 3
		case 2:
			nr = 4
		}
		for j := 0; j < nr; j++ {
			f.results = append(f.results, g.randType(nr == 1 && rng.Chance(30)))
		}
		g.genFunc(f)
		g.funcs = append(g.funcs, f)
	}
	// case functions: closed calls with literal arguments
	var cases []string
	for i := 0; i < len(g.funcs); i++ {
		f := g.funcs[i]
		if f.recv != nil {
			continue // methods are reached through the functions that call them
		}
		for c := 0; c < opt.NumCases; c++ {
			cn := fmt.Sprintf("case_%s_%d", f.name, c)
			ok := true
			var args []string
			empty := &scope{}
			saved := g.opt.MaxDepth
			for _, p := range f.params {
				if p.isInt() {
					args = append(args, g.intLit(p))
				} else if p.K == "bool" {
					args = append(args, []string{"true", "false"}[rng.Intn(2)])
				} else if p.K == "string" {
					args = append(args, g.strLit())
				} else {
					g.opt.MaxDepth = 1
					g.curFunc = nil
					args = append(args, g.expr(empty, p, 1))
				}
			}
			g.opt.MaxDepth = saved
			if !ok {
				continue
			}
			var rts []string
			for _, r := range f.results {
				rts = append(rts, r.Go())
			}
			rt := strings.Join(rts, ", ")
			if len(rts) > 1 {
				rt = "(" + rt + ")"
			}
			if opt.Ticks {
				var rs []string
				for k := range f.results {
					rs = append(rs, fmt.Sprintf("r%d", k))
				}
				g.line("func %s() (%s, uint64) {", cn, strings.Join(rts, ", "))
				g.line("\ttk := new(uint64)")
				g.line("\t%s := %s(%s)", strings.Join(rs, ", "), f.name, strings.Join(append(args, "tk"), ", "))
				g.line("\treturn %s, *tk", strings.Join(rs, ", "))
				g.line("}")
			} else {
				g.line("func %s() %s {", cn, rt)
				g.line("\treturn %s(%s)", f.name, strings.Join(args, ", "))
				g.line("}")
			}
			g.line("")
			cases = append(cases, cn)
		}
	}
	return &Package{Name: name, Source: g.b.String(), Cases: cases, Features: g.features}
}

func (g *G) genFunc(f *funcSig) {
	g.curFunc = f
	var ps []string
	body := &scope{}
	for i, p := range f.params {
		n := fmt.Sprintf("p%d", i)
		ps = append(ps, n+" "+p.Go())
		body.vars = append(body.vars, &variable{name: n, t: p, used: true, knownLen: -1})
	}
	if g.opt.Ticks {
		ps = append(ps, "tk *uint64")
	}
	var rts []string
	for _, r := range f.results {
		rts = append(rts, r.Go())
	}
	rt := strings.Join(rts, ", ")
	if len(rts) > 1 {
		rt = "(" + rt + ")"
	}
	if f.recv != nil {
		body.vars = append(body.vars, &variable{name: "rc", t: f.recv, used: true, knownLen: -1})
		g.feat("method-decl-" + f.recv.K)
		g.line("func (rc %s) %s(%s) %s {", f.recv.Go(), f.name, strings.Join(ps, ", "), rt)
	} else {
		g.line("func %s(%s) %s {", f.name, strings.Join(ps, ", "), rt)
	}
	g.ind++
	g.stmts(body, 2+g.rng.Intn(g.opt.MaxStmts), 0, tailReturn)
	g.ind--
	g.line("}")
	g.line("")
	g.curFunc = nil
}

// FeatureList renders a feature map sorted by name.
func FeatureList(m map[string]int) []string {
	var ks []string
	for k := range m {
		ks = append(ks, k)
	}
	sort.Strings(ks)
	return ks
}
