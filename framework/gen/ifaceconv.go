package gen

import (
	"fmt"
	"strings"
)

// ifaceconv.go: packages in which the same struct-to-interface conversion is needed at several call
// sites of several syntactic forms (C05: the flags that add comments or lemmas must not change which
// definitions the file has; a conversion needed twice is still defined once).

var ifaceSiteForms = []struct{ id, code string }{
	{"stmt", "\tuse_I(s)\n"},
	{"define", "\tv1 := use_I(s)\n\tx = x + v1\n"},
	{"expr", "\tx = x + use_I(s)*2\n"},
	{"ifcond", "\tif use_I(s) > 3 {\n\t\tx = x + 1\n\t}\n"},
	{"loop", "\tfor i := uint64(0); i < 2; i++ {\n\t\tx = x + use_I(s)\n\t}\n"},
	{"closure", "\tcl := func() uint64 {\n\t\treturn use_I(s)\n\t}\n\tx = x + cl()\n"},
	{"nestedarg", "\tx = x + dbl(use_I(s))\n"},
	{"second_struct", "\tx = x + use_I(t)\n"},
	{"second_iface", "\tx = x + use_J(s)\n"},
	{"literal_arg", "\tx = x + use_I(S{a: x})\n"},
}

// IfaceConvPackages: every single site form, every ordered pair of forms in one function, and
// the same form in two functions.
func IfaceConvPackages() []*Package {
	var out []*Package
	mk := func(name string, bodies ...string) {
		var b strings.Builder
		fmt.Fprintf(&b, "package %s\n\ntype I interface {\n\tget() uint64\n}\n\ntype J interface {\n\tget() uint64\n\tput(v uint64) uint64\n}\n\ntype S struct {\n\ta uint64\n}\n\nfunc (s S) get() uint64 {\n\treturn s.a + 1\n}\n\nfunc (s S) put(v uint64) uint64 {\n\treturn s.a + v\n}\n\ntype T struct {\n\tb uint64\n}\n\nfunc (t T) get() uint64 {\n\treturn t.b * 2\n}\n\nfunc use_I(i I) uint64 {\n\treturn i.get()\n}\n\nfunc use_J(j J) uint64 {\n\treturn j.get() + j.put(2)\n}\n\nfunc dbl(v uint64) uint64 {\n\treturn v * 2\n}\n\n", name)
		for k, body := range bodies {
			fmt.Fprintf(&b, "func f%d(a uint64) uint64 {\n\tvar x uint64 = a\n\ts := S{a: a}\n\tt := T{b: a}\n%s\treturn x + s.a + t.b\n}\n\n", k, body)
		}
		out = append(out, &Package{Name: name, Source: b.String(), Features: map[string]int{"ifaceconv": 1}})
	}
	for _, f := range ifaceSiteForms {
		mk("ic_"+f.id, f.code)
		mk("ic2f_"+f.id, f.code, f.code)
	}
	for _, f := range ifaceSiteForms {
		for _, g := range ifaceSiteForms {
			mk("ic_"+f.id+"_"+g.id, f.code+strings.ReplaceAll(g.code, "v1", "v2"))
		}
	}
	return out
}
