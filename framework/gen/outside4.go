package gen

import "strings"

// outside4.go: families over dimensions that the fourth round of seeded changes and the observations an agent
// made on the unchanged tree pointed at (DESIGN.md 8.7). As everywhere in the catalogue each atom is judged
// "rejected or faithful"; the dimension, not the single input, is what the family enumerates.
//
//   conv_*   how a conversion is spelled and between which pair of types it goes
//   ifc_*    every place where Go converts a value to an interface type implicitly
//   log_*    what the arguments of a logging call do, and what is done with its results
//   glob_*   what a package-level variable is initialised with
//   flit_*   results of function literals
//   pco_*    parenthesised right-hand sides of the two-valued forms
//   gval_*   generic functions used as values
//   faddr_*  whose field's address is taken

func Round9Families() []OutsideAtom {
	var out []OutsideAtom
	add := func(id, code string, noloop bool, imports ...string) {
		out = append(out, OutsideAtom{ID: id, Kind: "stmt", Code: code, NoLoop: noloop, Imports: imports, Site: "round-9 family: " + id})
	}
	addDecl := func(id, code string) {
		out = append(out, OutsideAtom{ID: id, Kind: "decl", Code: strings.ReplaceAll(code, "ID", id), Site: "round-9 family: " + id})
	}

	// --- conversions: spelling
	add("conv_paren_u32", "x = uint64((uint32)(x)) + 1", false)
	add("conv_paren_u8", "x = uint64((uint8)(x)) + 1", false)
	add("conv_paren_byte", "x = uint64((byte)(x)) + 1", false)
	add("conv_paren_u64_of_u32", "x += (uint64)(w) + 1", false)
	add("conv_paren_double", "x = uint64(((uint32))(x)) + 1", false)
	add("conv_paren_u32_of_expr", "x = uint64((uint32)(x*3+y)) + 1", false)
	add("conv_paren_string_of_bytes", "x += uint64(len((string)(bs)))", false)
	add("conv_paren_bytes_of_string", "b9 := ([]byte)(str)\n\tx += uint64(len(b9)) + uint64(b9[1])", false)
	add("conv_paren_named", "k9 := (Key)(str)\n\tx += uint64(len(k9))", false)
	// --- conversions: pairs of types with and without the same representation
	add("conv_bytes_of_named_string", "k9 := Key(str)\n\tb9 := []byte(k9)\n\tx += uint64(len(b9)) + uint64(b9[0])", false)
	add("conv_namedbytes_of_string", "b9 := Bytes(str)\n\tx += uint64(len(b9)) + uint64(b9[1])", false)
	add("conv_namedbytes_of_named_string", "k9 := Key(str)\n\tb9 := Bytes(k9)\n\tx += uint64(len(b9)) + uint64(b9[2])", false)
	add("conv_named_string_of_bytes", "bs[0] = 65\n\tk9 := Key(bs)\n\tx += uint64(len(k9))\n\tif k9 == \"A\\x00\\x00\" {\n\t\tx += 100\n\t}", false)
	add("conv_string_of_namedbytes", "bs[0] = 65\n\tvar b9 Bytes = Bytes(bs)\n\ts9 := string(b9)\n\tx += uint64(len(s9))\n\tif s9 == \"A\\x00\\x00\" {\n\t\tx += 100\n\t}", false)
	add("conv_namedbytes_of_bytes_aliases", "b9 := Bytes(bs)\n\tb9[0] = 9\n\tx += uint64(bs[0])", false)
	add("conv_runes_of_string", "r9 := []rune(str)\n\tx += uint64(len(r9))", false)
	add("conv_string_of_runes", "r9 := []rune(str)\n\ts9 := string(r9)\n\tx += uint64(len(s9))", false)
	add("conv_string_of_u64", "s9 := string(rune(65 + x%3))\n\tx += uint64(len(s9))", false)
	add("conv_string_of_byte", "s9 := string(z)\n\tx += uint64(len(s9))", false)
	add("conv_named_map_aliases", "m9 := MapU(m)\n\tm9[1] = 77\n\tx += m[1]", false)
	add("conv_named_func", "f9 := FnT(func(v uint64) uint64 {\n\t\treturn v + 2\n\t})\n\tx += f9(x)", false)
	add("conv_named_ptr", "p9 := PtrU(q)\n\t*p9 = *p9 + 3\n\tx += *q", false)
	addDecl("conv_ptr_same_underlying", "type A_ID struct {\n\ta uint64\n}\n\ntype B_ID struct {\n\ta uint64\n}\n\nfunc ID_fn(a uint64) uint64 {\n\tp1 := &A_ID{a: a}\n\tp2 := (*B_ID)(p1)\n\tp2.a = p2.a + 1\n\treturn p1.a\n}")
	addDecl("conv_struct_same_underlying", "type A_ID struct {\n\ta uint64\n\tb uint32\n}\n\ntype B_ID struct {\n\ta uint64\n\tb uint32\n}\n\nfunc ID_fn(a uint64) uint64 {\n\tv1 := A_ID{a: a, b: 3}\n\tv2 := B_ID(v1)\n\treturn v2.a + uint64(v2.b)\n}")
	addDecl("conv_named_slice_aliases", "type US_ID []uint64\n\nfunc ID_fn(a uint64) uint64 {\n\ts := make([]uint64, 2)\n\tu := US_ID(s)\n\tu[0] = a + 1\n\treturn s[0] + uint64(len(u))\n}")
	addDecl("conv_named_u32_of_u64", "type W_ID uint32\n\nfunc ID_fn(a uint64) uint64 {\n\tw := W_ID(a)\n\treturn uint64(w) + 1\n}")
	addDecl("conv_u64_of_named_u32", "type W_ID uint32\n\nfunc ID_fn(a uint64) uint64 {\n\tvar w W_ID = 7\n\treturn uint64(w) + a\n}")

	// --- implicit conversions to an interface type: every site
	ifc := "type I_ID interface {\n\tget() uint64\n}\n\ntype S_ID struct {\n\tv uint64\n}\n\nfunc (s S_ID) get() uint64 {\n\treturn s.v + 1\n}\n\nfunc use_ID(i I_ID) uint64 {\n\treturn i.get() + 10\n}\n\n"
	addIfc := func(id, rest string) { addDecl("ifc_"+id, ifc+rest) }
	addIfc("first_argument", "func ID_fn(a uint64) uint64 {\n\ts := S_ID{v: a}\n\treturn use_ID(s)\n}")
	addIfc("return", "func mk_ID(s S_ID) I_ID {\n\treturn s\n}\n\nfunc ID_fn(a uint64) uint64 {\n\ti := mk_ID(S_ID{v: a})\n\treturn i.get()\n}")
	addIfc("return_then_pass", "func mk_ID(s S_ID) I_ID {\n\treturn s\n}\n\nfunc ID_fn(a uint64) uint64 {\n\treturn use_ID(mk_ID(S_ID{v: a}))\n}")
	addIfc("return_tuple", "func mk_ID(s S_ID) (I_ID, uint64) {\n\treturn s, 2\n}\n\nfunc ID_fn(a uint64) uint64 {\n\ti, n := mk_ID(S_ID{v: a})\n\treturn i.get() + n\n}")
	addIfc("return_in_funclit", "func ID_fn(a uint64) uint64 {\n\tmk := func(s S_ID) I_ID {\n\t\treturn s\n\t}\n\ti := mk(S_ID{v: a})\n\treturn i.get()\n}")
	addIfc("var_decl", "func ID_fn(a uint64) uint64 {\n\ts := S_ID{v: a}\n\tvar i I_ID = s\n\treturn i.get()\n}")
	addIfc("assign_var", "func ID_fn(a uint64) uint64 {\n\ts := S_ID{v: a}\n\tvar i I_ID = S_ID{v: 1}\n\ti = s\n\treturn i.get()\n}")
	addIfc("assign_tuple", "func pair_ID(a uint64) (S_ID, uint64) {\n\treturn S_ID{v: a}, 4\n}\n\nfunc ID_fn(a uint64) uint64 {\n\tvar i I_ID\n\tvar n uint64\n\ti, n = pair_ID(a)\n\treturn i.get() + n\n}")
	addIfc("explicit_conversion", "func ID_fn(a uint64) uint64 {\n\ts := S_ID{v: a}\n\ti := I_ID(s)\n\treturn i.get()\n}")
	addIfc("explicit_conversion_passed", "func ID_fn(a uint64) uint64 {\n\ts := S_ID{v: a}\n\treturn use_ID(I_ID(s))\n}")
	addIfc("struct_literal_field", "type H_ID struct {\n\ti I_ID\n\tn uint64\n}\n\nfunc ID_fn(a uint64) uint64 {\n\ts := S_ID{v: a}\n\th := H_ID{i: s, n: 2}\n\treturn h.i.get() + h.n\n}")
	addIfc("struct_literal_positional", "type H_ID struct {\n\ti I_ID\n\tn uint64\n}\n\nfunc ID_fn(a uint64) uint64 {\n\ts := S_ID{v: a}\n\th := H_ID{s, 2}\n\treturn h.i.get() + h.n\n}")
	addIfc("struct_pointer_literal_field", "type H_ID struct {\n\ti I_ID\n}\n\nfunc ID_fn(a uint64) uint64 {\n\ts := S_ID{v: a}\n\th := &H_ID{i: s}\n\treturn h.i.get()\n}")
	addIfc("field_store", "type H_ID struct {\n\ti I_ID\n}\n\nfunc ID_fn(a uint64) uint64 {\n\ts := S_ID{v: a}\n\th := &H_ID{i: S_ID{v: 0}}\n\th.i = s\n\treturn h.i.get()\n}")
	addIfc("slice_literal", "func ID_fn(a uint64) uint64 {\n\ts := S_ID{v: a}\n\txs := []I_ID{s}\n\treturn xs[0].get()\n}")
	addIfc("slice_store", "func ID_fn(a uint64) uint64 {\n\ts := S_ID{v: a}\n\txs := make([]I_ID, 1)\n\txs[0] = s\n\treturn xs[0].get()\n}")
	addIfc("append", "func ID_fn(a uint64) uint64 {\n\ts := S_ID{v: a}\n\tvar xs []I_ID\n\txs = append(xs, s)\n\treturn xs[0].get()\n}")
	addIfc("map_store", "func ID_fn(a uint64) uint64 {\n\ts := S_ID{v: a}\n\tmm := make(map[uint64]I_ID)\n\tmm[1] = s\n\ti := mm[1]\n\treturn i.get()\n}")
	addIfc("map_literal", "func ID_fn(a uint64) uint64 {\n\ts := S_ID{v: a}\n\tmm := map[uint64]I_ID{1: s}\n\ti := mm[1]\n\treturn i.get()\n}")
	addIfc("method_argument", "type H_ID struct {\n\tn uint64\n}\n\nfunc (h *H_ID) take(i I_ID) uint64 {\n\treturn i.get() + h.n\n}\n\nfunc ID_fn(a uint64) uint64 {\n\ts := S_ID{v: a}\n\th := &H_ID{n: 3}\n\treturn h.take(s)\n}")
	addIfc("value_method_argument", "type H_ID struct {\n\tn uint64\n}\n\nfunc (h H_ID) take(i I_ID) uint64 {\n\treturn i.get() + h.n\n}\n\nfunc ID_fn(a uint64) uint64 {\n\ts := S_ID{v: a}\n\th := H_ID{n: 3}\n\treturn h.take(s)\n}")
	addIfc("second_parameter", "func use2_ID(k uint64, i I_ID) uint64 {\n\treturn i.get() + k\n}\n\nfunc ID_fn(a uint64) uint64 {\n\ts := S_ID{v: a}\n\treturn use2_ID(3, s)\n}")
	addIfc("second_parameter_first_struct", "func use2_ID(t S_ID, i I_ID) uint64 {\n\treturn i.get()*100 + t.v\n}\n\nfunc ID_fn(a uint64) uint64 {\n\ts1 := S_ID{v: a}\n\ts2 := S_ID{v: a + 5}\n\treturn use2_ID(s1, s2)\n}")
	addIfc("two_interface_parameters", "func use2_ID(i I_ID, j I_ID) uint64 {\n\treturn i.get()*100 + j.get()\n}\n\nfunc ID_fn(a uint64) uint64 {\n\ts1 := S_ID{v: a % 1000}\n\ts2 := S_ID{v: a%1000 + 5}\n\treturn use2_ID(s1, s2)\n}")
	addIfc("first_of_two_parameters", "func use2_ID(i I_ID, k uint64) uint64 {\n\treturn i.get() + k\n}\n\nfunc ID_fn(a uint64) uint64 {\n\ts := S_ID{v: a}\n\treturn use2_ID(s, 3)\n}")
	addIfc("closure_argument", "func ID_fn(a uint64) uint64 {\n\ts := S_ID{v: a}\n\tf := func(i I_ID) uint64 {\n\t\treturn i.get() + 2\n\t}\n\treturn f(s)\n}")
	addIfc("function_value_argument", "func ID_fn(a uint64) uint64 {\n\ts := S_ID{v: a}\n\tf := use_ID\n\treturn f(s)\n}")
	addIfc("interface_passed_on", "func relay_ID(i I_ID) uint64 {\n\treturn use_ID(i) + 1\n}\n\nfunc ID_fn(a uint64) uint64 {\n\ts := S_ID{v: a}\n\treturn relay_ID(s)\n}")
	addIfc("wider_interface_passed_as_narrower", "type J_ID interface {\n\tother() uint64\n\tget() uint64\n}\n\nfunc (s S_ID) other() uint64 {\n\treturn 1000\n}\n\nfunc relay_ID(j J_ID) uint64 {\n\treturn use_ID(j) + j.other()\n}\n\nfunc ID_fn(a uint64) uint64 {\n\ts := S_ID{v: a % 100}\n\treturn relay_ID(s)\n}")
	addIfc("wider_interface_converted", "type J_ID interface {\n\tother() uint64\n\tget() uint64\n}\n\nfunc (s S_ID) other() uint64 {\n\treturn 1000\n}\n\nfunc relay_ID(j J_ID) uint64 {\n\ti := I_ID(j)\n\treturn i.get() + j.other()\n}\n\nfunc ID_fn(a uint64) uint64 {\n\ts := S_ID{v: a % 100}\n\treturn relay_ID(s)\n}")
	addIfc("pointer_receiver_struct", "type P_ID struct {\n\tv uint64\n}\n\nfunc (p *P_ID) get() uint64 {\n\tp.v = p.v + 1\n\treturn p.v\n}\n\nfunc ID_fn(a uint64) uint64 {\n\tp := &P_ID{v: a}\n\treturn use_ID(p) + p.v\n}")
	addIfc("method_with_effect_called_once", "type C_ID struct {\n\tq *uint64\n}\n\nfunc (c C_ID) get() uint64 {\n\t*c.q = *c.q + 1\n\treturn *c.q\n}\n\nfunc twice_ID(i I_ID) uint64 {\n\treturn i.get()*10 + i.get()\n}\n\nfunc ID_fn(a uint64) uint64 {\n\tq := new(uint64)\n\t*q = a % 50\n\tc := C_ID{q: q}\n\treturn twice_ID(c)*100 + *q\n}")
	addIfc("method_with_effect_never_called", "type C_ID struct {\n\tq *uint64\n}\n\nfunc (c C_ID) get() uint64 {\n\t*c.q = *c.q + 1\n\treturn *c.q\n}\n\nfunc never_ID(i I_ID, k uint64) uint64 {\n\tif k > 1000000 {\n\t\treturn i.get()\n\t}\n\treturn k\n}\n\nfunc ID_fn(a uint64) uint64 {\n\tq := new(uint64)\n\t*q = a % 50\n\tc := C_ID{q: q}\n\treturn never_ID(c, 3)*100 + *q\n}")
	addIfc("compare_with_struct", "func same_ID(i I_ID, s S_ID) bool {\n\treturn i == s\n}\n\nfunc ID_fn(a uint64) uint64 {\n\ts := S_ID{v: a}\n\tif same_ID(s, s) {\n\t\treturn 5\n\t}\n\treturn use_ID(s)\n}")
	addIfc("compare_with_struct_unequal", "func differ_ID(i I_ID, s S_ID) bool {\n\treturn i != s\n}\n\nfunc ID_fn(a uint64) uint64 {\n\ts := S_ID{v: a}\n\tt := S_ID{v: a + 1}\n\tif differ_ID(s, t) {\n\t\treturn 5\n\t}\n\treturn use_ID(s)\n}")

	// --- logging calls: what their arguments do, what is done with their results
	add("log_fmt_println_plain", "fmt.Println(\"x is\", x, len(s), uint32(x))\n\tx += 1", false, "fmt")
	add("log_fmt_printf_plain", "fmt.Printf(\"%d %d\\n\", x, y+1)\n\tx += 1", false, "fmt")
	add("log_log_printf_plain", "log.Printf(\"%d\", x)\n\tx += 1", false, "log")
	add("log_fmt_println_call", "fmt.Println(bump(q))\n\tx += *q", false, "fmt")
	add("log_fmt_printf_call", "fmt.Printf(\"%d\\n\", bump(q)+1)\n\tx += *q", false, "fmt")
	add("log_log_printf_call", "log.Printf(\"%d\", bump(q))\n\tx += *q", false, "log")
	add("log_log_println_call", "log.Println(\"v\", bump(q))\n\tx += *q", false, "log")
	add("log_log_print_call", "log.Print(bump(q))\n\tx += *q", false, "log")
	add("log_call_in_index", "fmt.Println(\"v\", s[bump(q)%3])\n\tx += *q", false, "fmt")
	add("log_method_call", "fmt.Println(p.addTo(2))\n\tx += p.f", false, "fmt")
	add("log_closure_call", "f9 := func() uint64 {\n\t\tx = x + 5\n\t\treturn x\n\t}\n\tfmt.Println(f9())\n\tx += 1", false, "fmt")
	add("log_call_in_conversion", "fmt.Println(uint32(bump(q)))\n\tx += *q", false, "fmt")
	add("log_result_used", "n9, _ := fmt.Println(\"abc\")\n\tx += uint64(n9)", false, "fmt")
	add("log_result_error_used", "_, e9 := fmt.Println(\"abc\")\n\tif e9 == nil {\n\t\tx += 7\n\t}", false, "fmt")

	// --- package-level variables: what they are initialised with
	addDecl("glob_call_init", "func mk_ID() map[uint64]uint64 {\n\treturn make(map[uint64]uint64)\n}\n\nvar M_ID = mk_ID()\n\nfunc ID_fn(a uint64) uint64 {\n\tM_ID[1] = a + 2\n\treturn M_ID[1] + uint64(len(M_ID))\n}")
	addDecl("glob_make_map_init", "var M_ID = make(map[uint64]uint64)\n\nfunc ID_fn(a uint64) uint64 {\n\tM_ID[1] = a + 2\n\treturn M_ID[1] + uint64(len(M_ID))\n}")
	addDecl("glob_make_slice_init", "var X_ID = make([]uint64, 2)\n\nfunc ID_fn(a uint64) uint64 {\n\tX_ID[0] = a + 2\n\treturn X_ID[0]\n}")
	addDecl("glob_slice_literal_init", "var X_ID = []uint64{1, 2}\n\nfunc ID_fn(a uint64) uint64 {\n\tX_ID[0] = a + 2\n\treturn X_ID[0] + X_ID[1]\n}")
	addDecl("glob_map_literal_init", "var M_ID = map[uint64]uint64{1: 5}\n\nfunc ID_fn(a uint64) uint64 {\n\tM_ID[1] = a + 2\n\treturn M_ID[1]\n}")
	addDecl("glob_pointer_literal_init", "type T_ID struct {\n\tv uint64\n}\n\nvar P_ID = &T_ID{v: 1}\n\nfunc ID_fn(a uint64) uint64 {\n\tP_ID.v = a + 2\n\treturn P_ID.v\n}")
	addDecl("glob_new_init", "var Q_ID = new(uint64)\n\nfunc ID_fn(a uint64) uint64 {\n\t*Q_ID = a + 2\n\treturn *Q_ID\n}")
	addDecl("glob_mutex_init", "var L_ID = new(sync.Mutex)\n\nfunc ID_fn(a uint64) uint64 {\n\tL_ID.Lock()\n\tL_ID.Unlock()\n\treturn a\n}")
	addDecl("glob_struct_value_init", "type T_ID struct {\n\tv uint64\n}\n\nvar V_ID = T_ID{v: 4}\n\nfunc ID_fn(a uint64) uint64 {\n\treturn V_ID.v + a\n}")
	addDecl("glob_constant_expression_init", "var N_ID uint64 = 7 + 1\n\nfunc ID_fn(a uint64) uint64 {\n\treturn N_ID + a\n}")
	addDecl("glob_refers_to_global_init", "var A_ID uint64 = 7\n\nvar B_ID uint64 = A_ID + 1\n\nfunc ID_fn(a uint64) uint64 {\n\treturn B_ID + a\n}")
	addDecl("glob_counting_call_init", "func three_ID() uint64 {\n\treturn 3\n}\n\nvar N_ID uint64 = three_ID()\n\nfunc ID_fn(a uint64) uint64 {\n\treturn N_ID + a\n}")
	addDecl("glob_assigned", "var G_ID uint64 = 3\n\nfunc ID_fn(a uint64) uint64 {\n\tG_ID = a\n\treturn G_ID + 1\n}")
	addDecl("glob_init_function_fills_map", "var M_ID = make(map[uint64]uint64)\n\nfunc init() {\n\tM_ID[5] = 6\n}\n\nfunc ID_fn(a uint64) uint64 {\n\treturn M_ID[5] + a\n}")
	addDecl("glob_init_function_alone", "func init() {\n\tb := make([]byte, 8)\n\t_ = keepMachine(b)\n}\n\nfunc ID_fn(a uint64) uint64 {\n\treturn a + 1\n}")

	// --- function literals: results
	add("flit_named_result_bare_return", "f9 := func() (r9 uint64) {\n\t\treturn\n\t}\n\tx += f9() + 1", false)
	add("flit_named_result_assigned_bare_return", "f9 := func() (r9 uint64) {\n\t\tr9 = y + 1\n\t\treturn\n\t}\n\tx += f9()", false)
	add("flit_named_result_explicit_return", "f9 := func() (r9 uint64) {\n\t\treturn y + 1\n\t}\n\tx += f9()", false)
	add("flit_named_results_two", "f9 := func() (r9 uint64, ok9 bool) {\n\t\tr9 = y\n\t\tok9 = true\n\t\treturn\n\t}\n\tv9, o9 := f9()\n\tif o9 {\n\t\tx += v9\n\t}", false)
	add("flit_named_result_in_go", "var wg9 sync.WaitGroup\n\twg9.Add(1)\n\tgo func() (r9 uint64) {\n\t\t*q = *q + 1\n\t\twg9.Done()\n\t\treturn\n\t}()\n\twg9.Wait()\n\tx += *q", true)
	add("flit_unnamed_result", "f9 := func() uint64 {\n\t\treturn y + 1\n\t}\n\tx += f9()", false)

	// --- parenthesised right-hand sides of the two-valued forms
	add("pco_define_map", "v9, ok9 := (m[1])\n\tif ok9 {\n\t\tx += v9\n\t}", false)
	add("pco_define_map_absent", "v9, ok9 := (m[99])\n\tif !ok9 {\n\t\tx += v9 + 3\n\t}", false)
	add("pco_define_map_double", "v9, ok9 := ((m[1]))\n\tif ok9 {\n\t\tx += v9\n\t}", false)
	add("pco_assign_map", "var v9 uint64\n\tvar ok9 bool\n\tv9, ok9 = (m[1])\n\tif ok9 {\n\t\tx += v9\n\t}", false)
	add("pco_define_call", "a9, b9 := (two(x))\n\tx += a9 + b9", false)
	add("pco_single_map", "v9 := (m[1])\n\tx += v9", false)
	add("pco_call_statement", "(sideEffect0())\n\tx += 1", false)
	add("pco_callee", "x += (addPair)(x, 2)", false)

	// --- generic functions as values
	gv := "func Id_ID[T any](v T) T {\n\treturn v\n}\n\nfunc apply_ID(f func(uint64) uint64, v uint64) uint64 {\n\treturn f(v) + 1\n}\n\n"
	addDecl("gval_inferred_argument", gv+"func ID_fn(a uint64) uint64 {\n\treturn apply_ID(Id_ID, a)\n}")
	addDecl("gval_explicit_argument", gv+"func ID_fn(a uint64) uint64 {\n\treturn apply_ID(Id_ID[uint64], a)\n}")
	addDecl("gval_inferred_var_decl", gv+"func ID_fn(a uint64) uint64 {\n\tvar f func(uint64) uint64 = Id_ID\n\treturn f(a) + 2\n}")
	addDecl("gval_explicit_define", gv+"func ID_fn(a uint64) uint64 {\n\tf := Id_ID[uint64]\n\treturn f(a) + 2\n}")
	addDecl("gval_inferred_return", gv+"func pick_ID() func(uint64) uint64 {\n\treturn Id_ID\n}\n\nfunc ID_fn(a uint64) uint64 {\n\tf := pick_ID()\n\treturn f(a) + 3\n}")
	addDecl("gval_called_directly", gv+"func ID_fn(a uint64) uint64 {\n\treturn Id_ID(a) + Id_ID[uint64](a)\n}")
	addDecl("gval_recursive_inferred", "func Rep_ID[T any](x T, n uint64) T {\n\tif n == 0 {\n\t\treturn x\n\t}\n\treturn Rep_ID(x, n-1)\n}\n\nfunc ID_fn(a uint64) uint64 {\n\treturn Rep_ID(a, 3) + 1\n}")
	addDecl("gval_recursive_explicit", "func Rep_ID[T any](x T, n uint64) T {\n\tif n == 0 {\n\t\treturn x\n\t}\n\treturn Rep_ID[T](x, n-1)\n}\n\nfunc ID_fn(a uint64) uint64 {\n\treturn Rep_ID(a, 3) + 1\n}")
	addDecl("gval_recursive_typed_operation", "func Fill_ID[T any](xs []T, x T, n uint64) []T {\n\tif n == 0 {\n\t\treturn xs\n\t}\n\treturn Fill_ID(append(xs, x), x, n-1)\n}\n\nfunc ID_fn(a uint64) uint64 {\n\tvar e []uint64\n\txs := Fill_ID(e, a, 3)\n\treturn uint64(len(xs)) + xs[2]\n}")
	addDecl("gval_recursive_other_instance", "func Other_ID[T any](x T, n uint64) uint64 {\n\tvar z T\n\txs := make([]T, 0)\n\txs = append(append(xs, z), x)\n\tif n == 0 {\n\t\treturn uint64(len(xs))\n\t}\n\treturn Other_ID[uint64](n, n-1) + 1\n}\n\nfunc ID_fn(a uint64) uint64 {\n\treturn Other_ID(true, a%4)\n}")
	addDecl("gval_recursive_as_value", "func apply2_ID(f func(uint64, uint64) uint64, v uint64) uint64 {\n\treturn f(v, 1)\n}\n\nfunc Rep_ID[T any](x T, n uint64) T {\n\tif n == 0 {\n\t\treturn x\n\t}\n\treturn Rep_ID(x, n-1)\n}\n\nfunc ID_fn(a uint64) uint64 {\n\treturn apply2_ID(Rep_ID, a) + 1\n}")
	addDecl("gval_two_type_parameters", "func First_ID[T any, U any](v T, u U) T {\n\treturn v\n}\n\nfunc apply_ID(f func(uint64, bool) uint64, v uint64) uint64 {\n\treturn f(v, true) + 1\n}\n\nfunc ID_fn(a uint64) uint64 {\n\treturn apply_ID(First_ID, a)\n}")

	// --- address of a field: whose
	add("faddr_var_struct", "var h9 H = mkHval(x)\n\tpf9 := &h9.f\n\t*pf9 = 3\n\tx += h9.f", false)
	add("faddr_define_struct", "h9 := mkHval(x)\n\tpf9 := &h9.f\n\t*pf9 = 3\n\tx += h9.f", false)
	add("faddr_pointer_struct", "pf9 := &p.f\n\t*pf9 = *pf9 + 3", false)
	add("faddr_var_nested", "var o9 Outer\n\to9.n = 1\n\tpf9 := &o9.in.f\n\t*pf9 = x + 3\n\tx += o9.in.f", false)
	add("faddr_define_nested", "o9 := Outer{n: 1}\n\tpf9 := &o9.in.f\n\t*pf9 = x + 3\n\tx += o9.in.f", false)
	add("faddr_define_struct_passed", "h9 := mkHval(x)\n\tx += bump(&h9.f) + h9.f", false)
	addDecl("faddr_parameter_struct", "type T_ID struct {\n\tv uint64\n}\n\nfunc set_ID(t T_ID, a uint64) uint64 {\n\tp := &t.v\n\t*p = a + 3\n\treturn t.v\n}\n\nfunc ID_fn(a uint64) uint64 {\n\treturn set_ID(T_ID{v: 1}, a)\n}")
	addDecl("faddr_receiver_struct", "type T_ID struct {\n\tv uint64\n}\n\nfunc (t T_ID) set(a uint64) uint64 {\n\tp := &t.v\n\t*p = a + 3\n\treturn t.v\n}\n\nfunc ID_fn(a uint64) uint64 {\n\tt := T_ID{v: 1}\n\treturn t.set(a) + t.v\n}")

	// --- members of sync (and sync/atomic) other than the modelled ones: none may be given the meaning of Mutex.Lock
	add("sync_rwmutex_lock_unlock", "rw9 := new(sync.RWMutex)\n\trw9.Lock()\n\tx += 1\n\trw9.Unlock()", false)
	add("sync_rwmutex_rlock_once", "rw9 := new(sync.RWMutex)\n\trw9.RLock()\n\tx += 1\n\trw9.RUnlock()", false)
	add("sync_rwmutex_rlock_twice", "rw9 := new(sync.RWMutex)\n\trw9.RLock()\n\trw9.RLock()\n\tx += 1\n\trw9.RUnlock()\n\trw9.RUnlock()", false)
	add("sync_rwmutex_value_rlock_twice", "var rw9 sync.RWMutex\n\trw9.RLock()\n\trw9.RLock()\n\tx += 1\n\trw9.RUnlock()\n\trw9.RUnlock()", false)
	add("sync_rwmutex_rlocker_twice", "rw9 := new(sync.RWMutex)\n\tl9 := rw9.RLocker()\n\tl9.Lock()\n\tl9.Lock()\n\tx += 1\n\tl9.Unlock()\n\tl9.Unlock()", false)
	add("sync_rwmutex_trylock_while_read_locked", "rw9 := new(sync.RWMutex)\n\trw9.RLock()\n\tif rw9.TryRLock() {\n\t\tx += 5\n\t\trw9.RUnlock()\n\t}\n\trw9.RUnlock()", false)
	add("sync_mutex_trylock_free", "mu9 := new(sync.Mutex)\n\tif mu9.TryLock() {\n\t\tx += 1\n\t\tmu9.Unlock()\n\t}", false)
	add("sync_mutex_trylock_held", "mu9 := new(sync.Mutex)\n\tmu9.Lock()\n\tif !mu9.TryLock() {\n\t\tx += 2\n\t}\n\tmu9.Unlock()", false)
	add("sync_once_twice", "var o9 sync.Once\n\to9.Do(func() {\n\t\tx += 1\n\t})\n\to9.Do(func() {\n\t\tx += 10\n\t})", false)
	add("sync_once_pointer", "o9 := new(sync.Once)\n\to9.Do(func() {\n\t\tx += 1\n\t})\n\to9.Do(func() {\n\t\tx += 10\n\t})", false)
	add("sync_waitgroup_value", "var wg9 sync.WaitGroup\n\twg9.Add(1)\n\twg9.Done()\n\twg9.Wait()\n\tx += 1", false)
	add("sync_cond_on_rwmutex_read_side", "rw9 := new(sync.RWMutex)\n\tc9 := sync.NewCond(rw9.RLocker())\n\trw9.RLock()\n\trw9.RLock()\n\tc9.Signal()\n\tx += 1\n\trw9.RUnlock()\n\trw9.RUnlock()", false)

	// --- an interface type LITERAL with methods in every type position (no conversion definition can be named after it)
	anon := "type S_ID struct {\n\tv uint64\n}\n\nfunc (s S_ID) get() uint64 {\n\treturn s.v + 1\n}\n\n"
	addAnon := func(id, rest string) { addDecl("anonif_"+id, anon+rest) }
	addAnon("field_unused", "type T_ID struct {\n\ti interface{ get() uint64 }\n\tn uint64\n}\n\nfunc ID_fn(a uint64) uint64 {\n\tt := &T_ID{n: a}\n\treturn t.n + 1\n}")
	addAnon("field_called", "type T_ID struct {\n\ti interface{ get() uint64 }\n\tn uint64\n}\n\nfunc ID_fn(a uint64) uint64 {\n\tt := &T_ID{i: S_ID{v: a}, n: 1}\n\treturn t.i.get() + t.n\n}")
	addAnon("field_last", "type T_ID struct {\n\tn uint64\n\ti interface{ get() uint64 }\n}\n\nfunc ID_fn(a uint64) uint64 {\n\tt := &T_ID{n: a}\n\treturn t.n + 1\n}")
	addAnon("parameter_unused", "func h_ID(x interface{ get() uint64 }, a uint64) uint64 {\n\treturn a + 1\n}\n\nfunc ID_fn(a uint64) uint64 {\n\treturn h_ID(S_ID{v: 1}, a)\n}")
	addAnon("parameter_called", "func h_ID(x interface{ get() uint64 }) uint64 {\n\treturn x.get() + 1\n}\n\nfunc ID_fn(a uint64) uint64 {\n\treturn h_ID(S_ID{v: a})\n}")
	addAnon("second_parameter", "func h_ID(a uint64, x interface{ get() uint64 }) uint64 {\n\treturn x.get() + a\n}\n\nfunc ID_fn(a uint64) uint64 {\n\treturn h_ID(a, S_ID{v: a})\n}")
	addAnon("result", "func h_ID(a uint64) interface{ get() uint64 } {\n\treturn S_ID{v: a}\n}\n\nfunc ID_fn(a uint64) uint64 {\n\treturn h_ID(a).get()\n}")
	addAnon("variable", "func ID_fn(a uint64) uint64 {\n\tvar x interface{ get() uint64 } = S_ID{v: a}\n\treturn x.get()\n}")
	addAnon("slice_element", "func ID_fn(a uint64) uint64 {\n\txs := make([]interface{ get() uint64 }, 2)\n\treturn uint64(len(xs)) + a\n}")
	addAnon("map_value", "func ID_fn(a uint64) uint64 {\n\txm := make(map[uint64]interface{ get() uint64 })\n\treturn uint64(len(xm)) + a\n}")
	addAnon("function_literal_parameter", "func ID_fn(a uint64) uint64 {\n\tf := func(x interface{ get() uint64 }) uint64 {\n\t\treturn x.get() + 2\n\t}\n\treturn f(S_ID{v: a})\n}")
	addAnon("method_parameter", "type H_ID struct {\n\tn uint64\n}\n\nfunc (h *H_ID) take(x interface{ get() uint64 }) uint64 {\n\treturn x.get() + h.n\n}\n\nfunc ID_fn(a uint64) uint64 {\n\th := &H_ID{n: 2}\n\treturn h.take(S_ID{v: a})\n}")
	addAnon("named_after_literal", "type G_ID interface {\n\tget() uint64\n}\n\nfunc h_ID(x G_ID) uint64 {\n\treturn x.get() + 1\n}\n\nfunc ID_fn(a uint64) uint64 {\n\treturn h_ID(S_ID{v: a})\n}")

	// --- embedded fields: every way a promoted field or method is reached
	emb := "type E_ID struct {\n\tf uint64\n\tg uint32\n}\n\nfunc (e *E_ID) bump() {\n\te.f = e.f + 1\n}\n\nfunc (e E_ID) val() uint64 {\n\treturn e.f + 2\n}\n\ntype T_ID struct {\n\tE_ID\n\tn uint64\n}\n\ntype P_ID struct {\n\t*E_ID\n\tn uint64\n}\n\n"
	addEmb := func(id, body string) {
		addDecl("emb_"+id, emb+"func ID_fn(a uint64) uint64 {\n"+body+"}")
	}
	addEmb("declared_not_used", "\treturn a + 1\n")
	addEmb("literal_explicit_read", "\tt := &T_ID{E_ID: E_ID{f: a, g: 3}, n: 1}\n\treturn t.E_ID.f + t.n\n")
	addEmb("promoted_read", "\tt := &T_ID{E_ID: E_ID{f: a, g: 3}, n: 1}\n\treturn t.f + uint64(t.g) + t.n\n")
	addEmb("promoted_read_value", "\tt := T_ID{E_ID: E_ID{f: a, g: 3}, n: 1}\n\treturn t.f + t.n\n")
	addEmb("promoted_store", "\tt := &T_ID{E_ID: E_ID{f: 1, g: 3}, n: 1}\n\tt.f = a + 5\n\treturn t.E_ID.f + t.n\n")
	addEmb("promoted_store_var", "\tvar t T_ID\n\tt.n = 1\n\tt.f = a + 5\n\treturn t.E_ID.f + t.n\n")
	addEmb("promoted_store_narrow", "\tt := &T_ID{E_ID: E_ID{f: 1, g: 3}, n: 1}\n\tt.g = uint32(a) + 5\n\treturn uint64(t.E_ID.g) + t.n\n")
	addEmb("promoted_op_assign", "\tt := &T_ID{E_ID: E_ID{f: a, g: 3}, n: 1}\n\tt.f += 7\n\treturn t.E_ID.f + t.n\n")
	addEmb("promoted_inc", "\tt := &T_ID{E_ID: E_ID{f: a, g: 3}, n: 1}\n\tt.f++\n\treturn t.E_ID.f + t.n\n")
	addEmb("promoted_address", "\tt := &T_ID{E_ID: E_ID{f: a, g: 3}, n: 1}\n\tp := &t.f\n\t*p = *p + 9\n\treturn t.E_ID.f + t.n\n")
	addEmb("promoted_pointer_method", "\tt := &T_ID{E_ID: E_ID{f: a, g: 3}, n: 1}\n\tt.bump()\n\treturn t.E_ID.f + t.n\n")
	addEmb("promoted_value_method", "\tt := &T_ID{E_ID: E_ID{f: a, g: 3}, n: 1}\n\treturn t.val() + t.n\n")
	addEmb("explicit_method", "\tt := &T_ID{E_ID: E_ID{f: a, g: 3}, n: 1}\n\treturn t.E_ID.val() + t.n\n")
	addEmb("explicit_store", "\tt := &T_ID{E_ID: E_ID{f: 1, g: 3}, n: 1}\n\tt.E_ID.f = a + 5\n\treturn t.E_ID.f + t.n\n")
	addEmb("pointer_promoted_read", "\tp := &P_ID{E_ID: &E_ID{f: a, g: 3}, n: 1}\n\treturn p.f + p.n\n")
	addEmb("pointer_promoted_store", "\te := &E_ID{f: 1, g: 3}\n\tp := &P_ID{E_ID: e, n: 1}\n\tp.f = a + 5\n\treturn e.f + p.n\n")
	addEmb("pointer_promoted_method", "\te := &E_ID{f: a, g: 3}\n\tp := &P_ID{E_ID: e, n: 1}\n\tp.bump()\n\treturn e.f + p.n\n")
	addEmb("whole_embedded_value_copied", "\tt := &T_ID{E_ID: E_ID{f: a, g: 3}, n: 1}\n\te := t.E_ID\n\treturn e.f + uint64(e.g)\n")
	addEmb("size_of_slice_of_embedding", "\txs := make([]T_ID, 2)\n\txs[1] = T_ID{E_ID: E_ID{f: a, g: 3}, n: 4}\n\ty := xs[1]\n\treturn y.n + y.E_ID.f + uint64(len(xs))\n")
	addDecl("emb_interface_embedding", "type R_ID interface {\n\tRead() uint64\n}\n\ntype RC_ID interface {\n\tR_ID\n\tClose() uint64\n}\n\ntype F_ID struct {\n\tv uint64\n}\n\nfunc (f F_ID) Read() uint64 {\n\treturn f.v + 1\n}\n\nfunc (f F_ID) Close() uint64 {\n\treturn 100\n}\n\nfunc use_ID(rc RC_ID) uint64 {\n\treturn rc.Read() + rc.Close()\n}\n\nfunc ID_fn(a uint64) uint64 {\n\treturn use_ID(F_ID{v: a % 1000})\n}")
	addDecl("emb_interface_embedding_narrowed", "type R_ID interface {\n\tRead() uint64\n}\n\ntype RC_ID interface {\n\tR_ID\n\tClose() uint64\n}\n\ntype F_ID struct {\n\tv uint64\n}\n\nfunc (f F_ID) Read() uint64 {\n\treturn f.v + 1\n}\n\nfunc (f F_ID) Close() uint64 {\n\treturn 100\n}\n\nfunc read_ID(r R_ID) uint64 {\n\treturn r.Read()\n}\n\nfunc use_ID(rc RC_ID) uint64 {\n\treturn read_ID(rc) + rc.Close()\n}\n\nfunc ID_fn(a uint64) uint64 {\n\treturn use_ID(F_ID{v: a % 1000})\n}")
	addDecl("emb_struct_embeds_interface", "type R_ID interface {\n\tRead() uint64\n}\n\ntype F_ID struct {\n\tv uint64\n}\n\nfunc (f F_ID) Read() uint64 {\n\treturn f.v + 1\n}\n\ntype W_ID struct {\n\tR_ID\n\tn uint64\n}\n\nfunc mk_ID(r R_ID, n uint64) W_ID {\n\treturn W_ID{R_ID: r, n: n}\n}\n\nfunc wrap_ID(r R_ID) uint64 {\n\tw := mk_ID(r, 5)\n\treturn w.Read() + w.n\n}\n\nfunc ID_fn(a uint64) uint64 {\n\treturn wrap_ID(F_ID{v: a % 1000})\n}")
	return out
}

// Round10Families: dimensions behind what independent reviewers of the unchanged tree reported (DESIGN.md 8.8).
//
//	val_*     function and method VALUES whose callee has no GooseLang definition of that name
//	blank_*   top-level declarations named _
//	logpost_* a logging call where an expression is required
//	drop_*    operands that the translation drops although evaluating them has effects
//	deftype_* types defined as / aliased to other named types, methods declared through an alias
//	recstruct_* struct types that mention themselves
//	tupdep_*  tuple assignments whose targets depend on each other
//	binder_*  parameters named like the definition
//	nilctx_*  nil outside comparisons
func Round10Families() []OutsideAtom {
	var out []OutsideAtom
	add := func(id, code string, noloop bool, imports ...string) {
		out = append(out, OutsideAtom{ID: id, Kind: "stmt", Code: code, NoLoop: noloop, Imports: imports, Site: "round-10 family: " + id})
	}
	addDecl := func(id, code string) {
		out = append(out, OutsideAtom{ID: id, Kind: "decl", Code: strings.ReplaceAll(code, "ID", id), Site: "round-10 family: " + id})
	}
	ifc := "type I_ID interface {\n\tget() uint64\n}\n\ntype S_ID struct {\n\tv uint64\n}\n\nfunc (s S_ID) get() uint64 {\n\treturn s.v + 1\n}\n\n"
	// --- values
	addDecl("val_interface_method_value", ifc+"func h_ID(i I_ID) uint64 {\n\tf := i.get\n\treturn f() + 2\n}\n\nfunc ID_fn(a uint64) uint64 {\n\treturn h_ID(S_ID{v: a})\n}")
	addDecl("val_named_nonstruct_method_value", "type N_ID uint64\n\nfunc (n N_ID) add(k uint64) uint64 {\n\treturn uint64(n) + k\n}\n\nfunc ID_fn(a uint64) uint64 {\n\tn := N_ID(a % 100)\n\tf := n.add\n\treturn f(2)\n}")
	addDecl("val_named_nonstruct_method_call", "type N_ID uint64\n\nfunc (n N_ID) add(k uint64) uint64 {\n\treturn uint64(n) + k\n}\n\nfunc ID_fn(a uint64) uint64 {\n\tn := N_ID(a % 100)\n\treturn n.add(2)\n}")
	addDecl("val_struct_method_value_with_parameter", "type S_ID struct {\n\tv uint64\n}\n\nfunc (s *S_ID) add(k uint64) uint64 {\n\ts.v = s.v + k\n\treturn s.v\n}\n\nfunc ID_fn(a uint64) uint64 {\n\ts := &S_ID{v: a % 100}\n\tf := s.add\n\tr := f(2)\n\treturn r*100 + f(3)\n}")
	add("val_mutex_method_values", "mu9 := new(sync.Mutex)\n\tlk9 := mu9.Lock\n\tul9 := mu9.Unlock\n\tlk9()\n\tx += 1\n\tul9()", false)
	add("val_waitgroup_method_value", "wg9 := new(sync.WaitGroup)\n\twg9.Add(1)\n\tdn9 := wg9.Done\n\tdn9()\n\twg9.Wait()\n\tx += 1", false)
	add("val_cond_lock_field", "mu9 := new(sync.Mutex)\n\tc9 := sync.NewCond(mu9)\n\tc9.L.Lock()\n\tx += 1\n\tc9.L.Unlock()", false)
	add("val_machine_function_value", "get9 := machine.UInt64Get\n\tb9 := make([]byte, 8)\n\tb9[0] = 3\n\tx += get9(b9)", false)
	add("val_machine_function_called", "b9 := make([]byte, 8)\n\tb9[0] = 3\n\tx += machine.UInt64Get(b9)", false)
	add("val_address_of_global", "pg9 := &Factor\n\tx += *pg9", false)
	add("val_global_read", "x += Factor", false)
	// --- blank top-level names
	addDecl("blank_function", "func _() {\n}\n\nfunc ID_fn(a uint64) uint64 {\n\treturn a + 1\n}")
	addDecl("blank_function_twice", "func _() {\n}\n\nfunc _() uint64 {\n\treturn 2\n}\n\nfunc ID_fn(a uint64) uint64 {\n\treturn a + 1\n}")
	addDecl("blank_variable", "var _ = uint64(3)\n\nfunc ID_fn(a uint64) uint64 {\n\treturn a + 1\n}")
	addDecl("blank_constant", "const _ uint64 = 4\n\nfunc ID_fn(a uint64) uint64 {\n\treturn a + 1\n}")
	addDecl("blank_type", "type _ struct {\n\ta uint64\n}\n\nfunc ID_fn(a uint64) uint64 {\n\treturn a + 1\n}")
	addDecl("blank_method", "type S_ID struct {\n\ta uint64\n}\n\nfunc (s S_ID) _() uint64 {\n\treturn s.a\n}\n\nfunc ID_fn(a uint64) uint64 {\n\treturn a + 1\n}")
	addDecl("blank_parameter", "func h_ID(_ uint64, b uint64) uint64 {\n\treturn b + 1\n}\n\nfunc ID_fn(a uint64) uint64 {\n\treturn h_ID(7, a)\n}")
	// --- logging where an expression is required
	add("logpost_fmt_println", "for i9 := uint64(0); i9 < 2; fmt.Println(\"tick\") {\n\t\ti9++\n\t\tx += 1\n\t}", true, "fmt")
	add("logpost_log_printf", "for i9 := uint64(0); i9 < 2; log.Printf(\"%d\", x) {\n\t\ti9++\n\t\tx += 1\n\t}", true, "log")
	add("logpost_in_loop_body_only", "for i9 := uint64(0); i9 < 2; i9++ {\n\t\tfmt.Println(\"tick\")\n\t\tx += 1\n\t}", true, "fmt")
	add("logpost_only_statement_of_branch", "if x > 3 {\n\t\tfmt.Println(\"big\")\n\t} else {\n\t\tfmt.Println(\"small\")\n\t}\n\tx += 1", false, "fmt")
	add("logpost_only_statement_of_closure", "f9 := func() {\n\t\tfmt.Println(\"in\")\n\t}\n\tf9()\n\tx += 1", false, "fmt")
	add("logpost_last_statement_of_loop_body", "for _, v9 := range s {\n\t\tx += v9\n\t\tlog.Println(\"v\", v9)\n\t}", true, "log")
	// --- dropped operands with effects
	add("drop_map_size_hint_call", "m9 := make(map[uint64]uint64, bump(q))\n\tm9[1] = 2\n\tx += uint64(len(m9)) + *q", false)
	add("drop_map_size_hint_plain", "m9 := make(map[uint64]uint64, x%8+1)\n\tm9[1] = 2\n\tx += uint64(len(m9))", false)
	add("drop_slice_length_call", "t9 := make([]uint64, bump(q)%3+1)\n\tx += uint64(len(t9)) + *q", false)
	add("drop_slice_capacity_call", "t9 := make([]uint64, 1, bump(q)%3+2)\n\tx += uint64(len(t9)) + *q", false)
	// --- ifc: the variadic guard on the conversion path
	addDecl("ifc_variadic_after_interface", ifc+"func take_ID(i I_ID, rest ...uint64) uint64 {\n\treturn i.get() + uint64(len(rest))\n}\n\nfunc ID_fn(a uint64) uint64 {\n\treturn take_ID(S_ID{v: a}, 5, 6)\n}")
	addDecl("ifc_variadic_after_interface_empty", ifc+"func take_ID(i I_ID, rest ...uint64) uint64 {\n\treturn i.get() + uint64(len(rest))\n}\n\nfunc ID_fn(a uint64) uint64 {\n\treturn take_ID(S_ID{v: a})\n}")
	// --- defined and aliased types
	addDecl("deftype_over_struct", "type S_ID struct {\n\ta uint64\n}\n\ntype T_ID S_ID\n\nfunc ID_fn(a uint64) uint64 {\n\tt := T_ID{a: a}\n\treturn t.a + 1\n}")
	addDecl("deftype_over_struct_new", "type S_ID struct {\n\ta uint64\n}\n\ntype T_ID S_ID\n\nfunc ID_fn(a uint64) uint64 {\n\tt := new(T_ID)\n\tt.a = a\n\treturn t.a + 1\n}")
	addDecl("deftype_over_struct_unused", "type S_ID struct {\n\ta uint64\n}\n\ntype T_ID S_ID\n\nfunc ID_fn(a uint64) uint64 {\n\treturn a + 1\n}")
	addDecl("deftype_over_interface", ifc+"type J_ID I_ID\n\nfunc h_ID(j J_ID) uint64 {\n\treturn j.get()\n}\n\nfunc ID_fn(a uint64) uint64 {\n\treturn h_ID(S_ID{v: a})\n}")
	addDecl("deftype_alias_receiver_value", "type S_ID struct {\n\ta uint64\n}\n\ntype A_ID = S_ID\n\nfunc (s A_ID) get() uint64 {\n\treturn s.a + 1\n}\n\nfunc ID_fn(a uint64) uint64 {\n\ts := S_ID{a: a}\n\treturn s.get()\n}")
	addDecl("deftype_alias_receiver_pointer", "type S_ID struct {\n\ta uint64\n}\n\ntype A_ID = S_ID\n\nfunc (s *A_ID) set(x uint64) {\n\ts.a = x\n}\n\nfunc ID_fn(a uint64) uint64 {\n\ts := &S_ID{a: 1}\n\ts.set(a + 2)\n\treturn s.a\n}")
	addDecl("deftype_alias_in_signature", "type S_ID struct {\n\ta uint64\n}\n\ntype A_ID = S_ID\n\nfunc h_ID(s *A_ID) uint64 {\n\treturn s.a + 1\n}\n\nfunc ID_fn(a uint64) uint64 {\n\treturn h_ID(&S_ID{a: a})\n}")
	addDecl("deftype_alias_of_uint32_conversion", "type U_ID = uint32\n\nfunc ID_fn(a uint64) uint64 {\n\treturn uint64(U_ID(a)) + 1\n}")
	addDecl("deftype_alias_of_uint64_widening", "type U_ID = uint64\n\nfunc w_ID(a uint32, b uint32) uint64 {\n\treturn U_ID(a) + U_ID(b)\n}\n\nfunc ID_fn(a uint64) uint64 {\n\treturn w_ID(uint32(a), 4294967295)\n}")
	addDecl("deftype_alias_of_byte_conversion", "type B_ID = byte\n\nfunc ID_fn(a uint64) uint64 {\n\treturn uint64(B_ID(a)) + 1\n}")
	// --- struct types that mention themselves
	addDecl("recstruct_slice_of_self", "type T_ID struct {\n\tv    uint64\n\tkids []T_ID\n}\n\nfunc ID_fn(a uint64) uint64 {\n\tt := T_ID{v: a}\n\treturn t.v + uint64(len(t.kids))\n}")
	addDecl("recstruct_map_of_self", "type T_ID struct {\n\tv uint64\n\tm map[uint64]T_ID\n}\n\nfunc ID_fn(a uint64) uint64 {\n\tt := &T_ID{v: a}\n\treturn t.v + 1\n}")
	addDecl("recstruct_function_of_self", "type T_ID struct {\n\tv uint64\n\tf func(T_ID) uint64\n}\n\nfunc ID_fn(a uint64) uint64 {\n\tt := &T_ID{v: a}\n\treturn t.v + 1\n}")
	addDecl("recstruct_pointer_to_self", "type T_ID struct {\n\tv    uint64\n\tnext *T_ID\n}\n\nfunc ID_fn(a uint64) uint64 {\n\tt := &T_ID{v: a}\n\tu := &T_ID{v: 1, next: t}\n\treturn u.next.v + u.v\n}")
	addDecl("recstruct_slice_of_pointer_to_self", "type T_ID struct {\n\tv    uint64\n\tkids []*T_ID\n}\n\nfunc ID_fn(a uint64) uint64 {\n\tt := &T_ID{v: a}\n\treturn t.v + uint64(len(t.kids))\n}")
	// --- tuple assignments whose targets depend on each other
	add("tupdep_index_uses_earlier_target", "var i9 uint64 = 0\n\ti9, s[i9] = two(0)\n\tx += i9*100 + s[0]*10 + s[1]", false)
	add("tupdep_index_uses_later_target", "var i9 uint64 = 0\n\ts[i9], i9 = two(0)\n\tx += i9*100 + s[0]*10 + s[1]", false)
	add("tupdep_independent_targets", "var i9 uint64 = 0\n\tvar j9 uint64 = 1\n\ti9, s[j9] = two(0)\n\tx += i9*100 + s[0]*10 + s[1]", false)
	addDecl("tupdep_field_of_earlier_target", "type S_ID struct {\n\tx uint64\n}\n\nfunc new_ID() (*S_ID, uint64) {\n\treturn &S_ID{x: 0}, 3\n}\n\nfunc ID_fn(a uint64) uint64 {\n\tvar p *S_ID = &S_ID{x: a % 10}\n\told := p\n\tp, p.x = new_ID()\n\treturn old.x*10 + p.x\n}")
	// --- parameters named like the definition
	addDecl("binder_method_parameter", "type S_ID struct {\n\tn uint64\n}\n\nfunc (s S_ID) down(S_ID__down uint64) uint64 {\n\tif s.n == 0 {\n\t\treturn S_ID__down\n\t}\n\treturn S_ID{n: s.n - 1}.down(S_ID__down)\n}\n\nfunc ID_fn(a uint64) uint64 {\n\treturn S_ID{n: 3}.down(a)\n}")
	addDecl("binder_function_parameter", "func r_ID(r_ID uint64) uint64 {\n\treturn r_ID + 1\n}\n\nfunc ID_fn(a uint64) uint64 {\n\treturn r_ID(a)\n}")
	addDecl("binder_local_variable", "func r_ID(n uint64) uint64 {\n\tr_ID := n + 1\n\treturn r_ID\n}\n\nfunc ID_fn(a uint64) uint64 {\n\treturn r_ID(a)\n}")
	// --- what stands as the VALUE of a struct-literal field (`f ::= v` is a notation at level 60)
	fv := "type F_ID struct {\n\tok bool\n\tlt bool\n\tn  uint64\n}\n\nfunc score_ID(f F_ID) uint64 {\n\tr := f.n\n\tif f.ok {\n\t\treturn r + 10\n\t}\n\tif f.lt {\n\t\treturn r + 100\n\t}\n\treturn r\n}\n\n"
	for _, c := range []struct{ id, ok, lt, n string }{
		{"comparisons", "a == 3", "a < 8", "a + 1"},
		{"comparisons_other", "a != 3", "a >= 8", "a - 1"},
		{"negation", "!(a == 3)", "!(a > 8)", "a * 2"},
		{"conjunction", "a > 1 && a < 9", "a == 0 || a == 255", "a % 7"},
		{"nested_comparison_of_sums", "a+1 == 4", "a*2 <= a+8", "a << 1"},
		{"call_results", "score_ID(F_ID{n: a}) == a", "score_ID(F_ID{ok: a == 0, n: 1}) > 5", "a"},
	} {
		addDecl("fieldval_"+c.id, fv+"func ID_fn(a uint64) uint64 {\n\tf := F_ID{ok: "+c.ok+", lt: "+c.lt+", n: "+c.n+"}\n\tp := &F_ID{ok: "+c.lt+", lt: "+c.ok+", n: 1}\n\treturn score_ID(f)*1000 + score_ID(*p)\n}")
	}
	// --- nil outside comparisons (recorded finding: the gold files pin `SliceSet ptrT "s" #2 slice.nil`)
	nl := "type L_ID struct {\n\tv    uint64\n\tnext *L_ID\n}\n\nfunc isNil_ID(p *L_ID) bool {\n\treturn p == nil\n}\n\n"
	addDecl("nilctx_pointer_argument", nl+"func ID_fn(a uint64) uint64 {\n\tif isNil_ID(nil) {\n\t\treturn a + 1\n\t}\n\treturn 0\n}")
	addDecl("nilctx_pointer_assigned", nl+"func ID_fn(a uint64) uint64 {\n\tvar p *L_ID = &L_ID{v: a}\n\tp = nil\n\tif p == nil {\n\t\treturn a + 1\n\t}\n\treturn 0\n}")
	addDecl("nilctx_pointer_returned", nl+"func none_ID() *L_ID {\n\treturn nil\n}\n\nfunc ID_fn(a uint64) uint64 {\n\tif none_ID() == nil {\n\t\treturn a + 1\n\t}\n\treturn 0\n}")
	addDecl("nilctx_pointer_field", nl+"func ID_fn(a uint64) uint64 {\n\tl := &L_ID{v: a, next: nil}\n\tif l.next == nil {\n\t\treturn a + 1\n\t}\n\treturn 0\n}")
	addDecl("nilctx_slice_argument", "func n_ID(s []uint64) uint64 {\n\treturn uint64(len(s))\n}\n\nfunc ID_fn(a uint64) uint64 {\n\treturn n_ID(nil) + a\n}")
	return out
}

// BlockBinderAtoms: SUPPORTED statements (they join InsideAtoms): the dimension "what introduces a name inside a bare
// block". Each block binds y, which shadows the host's y, to something else; the statement after the block reads the
// outer y. A binder that the translation lets escape from the block's parentheses (a let that is not closed at the
// block's end) changes what that read sees.
func BlockBinderAtoms() []OutsideAtom {
	var out []OutsideAtom
	add := func(id, block string) {
		out = append(out, OutsideAtom{ID: "blockbind_" + id, Kind: "stmt", Code: "{\n" + block + "\t}\n\tx = x + y", Site: "bare block: binder kind " + id})
	}
	add("for_init", "\t\tfor y := uint64(0); y < 3; y++ {\n\t\t\tx += y\n\t\t}\n")
	add("for_init_after_statement", "\t\tx += 1\n\t\tfor y := uint64(0); y < 3; y++ {\n\t\t\tx += y\n\t\t}\n")
	add("for_init_before_statement", "\t\tfor y := uint64(0); y < 3; y++ {\n\t\t\tx += y\n\t\t}\n\t\tx += 1\n")
	add("for_init_twice", "\t\tfor y := uint64(0); y < 2; y++ {\n\t\t\tx += y\n\t\t}\n\t\tfor y := uint64(5); y < 7; y++ {\n\t\t\tx += y\n\t\t}\n")
	add("for_init_in_if", "\t\tif x > 0 {\n\t\t\tfor y := uint64(0); y < 3; y++ {\n\t\t\t\tx += y\n\t\t\t}\n\t\t}\n")
	add("for_init_in_loop", "\t\tfor r9 := uint64(0); r9 < 2; r9++ {\n\t\t\tfor y := uint64(0); y < 2; y++ {\n\t\t\t\tx += y + r9\n\t\t\t}\n\t\t}\n")
	add("range_value", "\t\tfor _, y := range s {\n\t\t\tx += y\n\t\t}\n")
	add("range_key", "\t\tfor y := range s {\n\t\t\tx += y\n\t\t}\n")
	add("range_map", "\t\tfor y, v9 := range m {\n\t\t\tx += y + v9\n\t\t}\n")
	add("closure_parameter", "\t\tf9 := func(y uint64) uint64 {\n\t\t\treturn y + 1\n\t\t}\n\t\tx += f9(2)\n")
	add("multiple_define", "\t\ty, b9 := two(x)\n\t\tx += y + b9\n")
	add("comma_ok_define", "\t\ty, ok9 := m[1]\n\t\tif ok9 {\n\t\t\tx += y\n\t\t}\n")
	add("var_without_value", "\t\tvar y uint64\n\t\ty = x + 2\n\t\tx += y\n")
	add("nested_block_define", "\t\t{\n\t\t\ty := x + 5\n\t\t\tx = y\n\t\t}\n\t\tx += 1\n")
	add("define_in_then_branch", "\t\tif x > 0 {\n\t\t\ty := x + 5\n\t\t\tx = y\n\t\t}\n")
	add("define_in_loop_body", "\t\tfor r9 := uint64(0); r9 < 2; r9++ {\n\t\t\ty := x + r9\n\t\t\tx = y + 1\n\t\t}\n")
	add("no_binder", "\t\tx += 1\n\t\ts[1] = x\n")
	return out
}
