package gen

import (
	"fmt"
	"strconv"
	"strings"
)

// outside3.go: generated families added after round 6 of seeded changes. Each family is one
// *dimension* of program shape crossed with the places it can occur, judged rejected-or-faithful
// by C02 and (ShapeFamilyAtoms) by C01's statement matrix:
//
//   eff_*     one side-effecting operand at every operand position of every expression / statement
//             form: the effect must happen exactly as often as in Go (an operand the translation
//             prints twice, or drops, changes the counter the host returns)
//   strlit_*  string literals by byte class (escapes, control bytes, non-ASCII, comment openers,
//             format verbs, raw literals) observed through len, bytes, ==, + and as constants
//   ifinit_*  every form of `if` initialiser, each with a binder that shadows an outer name that is
//             used again after the statement
//   name_*    locals, parameters, receivers and fields that are NAMED like library packages,
//             GooseLang modules or predeclared identifiers, in every use form (field read, method
//             call, index, call, assignment)
//   ty_*      composite types nested inside one another at every place a type is printed
//             (make, var, struct field, new, composite literal, conversion)

// FamilyAtoms selects the family atoms a property runs in a tier. Thorough: everything, for both
// properties. Quick: C01 carries the families about meaning inside the subset (eff, strlit, ty) and a
// rotating sample of name_; C02 carries the look-alike families (ifinit, name_) and a rotating sample of
// the others. pick(n) must return a seed-determined number in [0,n).
func FamilyAtoms(prop string, quick bool, pick func(n int) int) (out []OutsideAtom) {
	eff, str, nam, ty, ifi, bod := effectOnceAtoms(), append(stringLiteralAtoms(), literalSpellingAtoms()...), namedLikeAtoms(), typeNestingAtoms(), ifInitAtoms(), bodyShapeAtoms()
	rej := rejectedConstructFamilies()
	r9 := append(Round9Families(), Round10Families()...)
	if quick {
		// the dimensions of these families are independent of where the statement stands: two positions
		for i := range r9 {
			r9[i].Positions = []string{"first", "inloop"}
		}
	}
	rej = append(rej, r9...)
	if !quick {
		all := append(append(append(append(append([]OutsideAtom{}, eff...), str...), nam...), ty...), bod...)
		if prop == "C02" {
			all = append(all, ifi...)
			all = append(all, rej...)
		}
		return all
	}
	sample := func(as []OutsideAtom, oneIn int) []OutsideAtom {
		var out []OutsideAtom
		off := pick(oneIn)
		for i, a := range as {
			if i%oneIn == off {
				out = append(out, a)
			}
		}
		return out
	}
	defer func() {
		for i := range out {
			out[i].Light = true
		}
	}()
	if prop == "C01" {
		out = append(out, eff...)
		out = append(out, ty...)
		for _, a := range str {
			if a.Kind == "stmt" && !strings.HasPrefix(a.ID, "strlit_raw_") && !strings.HasPrefix(a.ID, "lit_") {
				out = append(out, a)
			}
		}
		var rest []OutsideAtom
		for _, a := range str {
			if a.Kind != "stmt" || strings.HasPrefix(a.ID, "strlit_raw_") || strings.HasPrefix(a.ID, "lit_") {
				rest = append(rest, a)
			}
		}
		out = append(out, sample(rest, 3)...)
		out = append(out, sample(nam, 9)...)
		out = append(out, sample(bod, 8)...)
		return out
	}
	out = append(out, ifi...)
	out = append(out, rej...)
	prio := map[string]bool{"disk": true, "filesys": true, "machine": true, "sync": true}
	var rest []OutsideAtom
	for _, a := range nam {
		n := strings.SplitN(strings.TrimPrefix(a.ID, "name_"), "_", 2)[0]
		if prio[n] {
			out = append(out, a)
		} else {
			rest = append(rest, a)
		}
	}
	out = append(out, sample(rest, 6)...)
	out = append(out, sample(eff, 4)...)
	out = append(out, sample(ty, 4)...)
	out = append(out, sample(str, 6)...)
	out = append(out, sample(bod, 24)...)
	return out
}

// ShapeFamilyAtoms: every family atom that is (or may be) inside the subset.
func ShapeFamilyAtoms() []OutsideAtom {
	var out []OutsideAtom
	out = append(out, effectOnceAtoms()...)
	out = append(out, stringLiteralAtoms()...)
	out = append(out, namedLikeAtoms()...)
	out = append(out, typeNestingAtoms()...)
	return out
}

// IfInitAtoms are outside the subset today (C02 only); exported for reports.
func IfInitAtoms() []OutsideAtom { return ifInitAtoms() }

const hostPrelude3 = `func bump(q *uint64) uint64 {
	*q = *q + 1
	return *q
}

func bump32(q *uint64) uint32 {
	*q = *q + 1
	return uint32(*q % 1000)
}

func bumpBool(q *uint64) bool {
	*q = *q + 1
	return *q%2 == 0
}

func bumpStr(q *uint64) string {
	*q = *q + 1
	if *q%2 == 0 {
		return "ev"
	}
	return "odd"
}

type FnHolder struct {
	fn func(*uint64) uint64
}

func (h *H) tick(q *uint64) uint64 {
	*q = *q + 1
	return *q + h.f%2
}

type Dev struct {
	Size  uint64
	Read  uint64
	Write uint64
	Lock  uint64
	f     uint64
	n     *H
}

func (d *Dev) Barrier(v uint64) uint64 {
	d.Size = d.Size + v
	return d.Size + d.Read
}

func (d Dev) Total() uint64 {
	return d.Size + d.Read + d.Write + d.Lock
}

func mkDev(v uint64) *Dev {
	return &Dev{Size: v + 1, Read: 2, Write: 3, Lock: 4, f: 5, n: &H{f: v}}
}

func mkHval(v uint64) H {
	return H{f: v + 1, g: 5}
}

func mapNil(mp map[uint64]uint64) uint64 {
	if mp == nil {
		return 1
	}
	return 0
}

func mkPtr(v uint64) *uint64 {
	pp := new(uint64)
	*pp = v
	return pp
}

func bump32Pure(v uint32) uint64 {
	return uint64(v) + 1
}

func ptrNil(hp *H) uint64 {
	if hp == nil {
		return 1
	}
	return 0
}

func ptrNilU(up *uint64) uint64 {
	if up == nil {
		return 1
	}
	return 0
}

func fnNil(fp func(uint64) uint64) uint64 {
	if fp == nil {
		return 1
	}
	return 0
}

func boolU(bv bool) uint64 {
	if bv {
		return 1
	}
	return 0
}

`

func effectOnceAtoms() []OutsideAtom {
	var out []OutsideAtom
	add := func(id, code string) {
		out = append(out, OutsideAtom{ID: "eff_" + id, Kind: "stmt", Code: code, Site: "one side-effecting operand (bump) at operand position " + id + ": evaluated exactly as often as in Go"})
	}
	// indexing: read, store, op-assign; slices and maps
	add("index_read", "x += s[bump(q)%3]")
	add("index_store", "s[bump(q)%3] = x + 1")
	add("index_store_rhs", "s[1] = bump(q)")
	add("index_opassign", "s[bump(q)%3] += 5")
	add("index_opassign_xor", "s[bump(q)%3] ^= 6")
	add("map_read", "x += m[bump(q)%2]")
	add("map_store", "m[bump(q)%2] = x + 1")
	add("map_store_rhs", "m[1] = bump(q)")
	add("map_opassign", "m[bump(q)%2] += 5")
	add("map_commaok", "v9, ok9 := m[bump(q)%2]\n\tif ok9 {\n\t\tx += v9\n\t}")
	add("map_delete", "delete(m, bump(q)%2)")
	add("bytes_index_opassign", "bs[bump(q)%3] += 5\n\tx += uint64(bs[0]) + uint64(bs[1])*3 + uint64(bs[2])*7")
	// slicing
	add("slice_low", "t := s[bump(q)%2:]\n\tx += t[0] + uint64(len(t))")
	add("slice_high", "t := s[:bump(q)%3+1]\n\tx += t[0] + uint64(len(t))")
	add("slice_low_of_lowhigh", "t := s[bump(q)%2 : 3]\n\tx += t[0] + uint64(len(t))")
	add("slice_high_of_lowhigh", "t := s[1 : bump(q)%2+2]\n\tx += t[0] + uint64(len(t))")
	add("slice_chain_low", "t := s[bump(q)%2:][:2]\n\tx += t[0] + t[1] + uint64(len(t))")
	add("slice_chain_high", "t := s[1:][:bump(q)%2+1]\n\tx += t[0] + uint64(len(t))")
	add("slice_chain_take_skip", "t := s[:3][bump(q)%2:]\n\tx += t[0] + uint64(len(t))")
	add("slice_operand", "t := mkSlice(bump(q))[1:]\n\tx += t[0] + uint64(len(t))")
	// assignments
	add("opassign_rhs_add", "x += bump(q)")
	add("opassign_rhs_sub", "x -= bump(q)")
	add("opassign_rhs_or", "x |= bump(q)")
	add("opassign_rhs_u32", "w += bump32(q)\n\tx += uint64(w)")
	add("field_opassign_rhs", "p.f += bump(q)")
	add("field_store_rhs", "p.f = bump(q)")
	add("define_rhs", "t := bump(q)\n\tx += t + t")
	add("var_rhs", "var t uint64 = bump(q)\n\tx += t + t")
	add("assign_rhs", "x = bump(q) + 1")
	add("deref_store_of_call", "*mkPtr(bump(q)) = 5\n\tx += 1")
	add("field_store_of_call", "mkH(bump(q)).f = 5\n\tx += 1")
	add("field_opassign_of_call", "mkH(bump(q)).f += 5\n\tx += 1")
	add("elem_opassign_of_call", "mkSlice(bump(q))[1] += 5\n\tx += 1")
	add("nested_field_opassign", "mkDev(bump(q)).n.f += 5\n\tx += 1")
	// calls
	add("call_arg_first", "x += addPair(bump(q), 3)")
	add("call_arg_last", "x += addPair(3, bump(q))")
	add("method_receiver", "x += mkH(bump(q)).addTo(1)")
	add("method_arg", "x += p.addTo(bump(q))")
	add("value_method_receiver", "x += mkHval(bump(q)).sumWith(1)")
	add("closure_arg", "cf := func(d uint64) uint64 {\n\t\treturn d + d\n\t}\n\tx += cf(bump(q))")
	add("multi_result_arg", "r1, r2 := two(bump(q))\n\tx += r1 + r2")
	add("multi_assign_arg", "p.f, s[1] = two(bump(q))")
	add("struct_literal_field", "h2 := &H{f: bump(q)}\n\tx += h2.f + h2.f")
	add("struct_value_literal_field", "h2 := H{f: bump(q), g: 1}\n\tx += h2.f + uint64(h2.g)")
	add("field_of_call", "x += mkH(bump(q)).f")
	add("index_of_call", "x += mkSlice(bump(q))[1]")
	add("len_of_call", "x += uint64(len(mkSlice(bump(q))))")
	add("append_elem", "var t []uint64\n\tt = append(t, bump(q))\n\tx += t[0] + uint64(len(t))")
	add("append_spread", "var t []uint64\n\tt = append(t, mkSlice(bump(q))...)\n\tx += t[1] + uint64(len(t))")
	add("make_len", "t := make([]uint64, bump(q)%3+1)\n\tx += uint64(len(t))")
	add("make_len_cap", "t := make([]uint64, 1, bump(q)%3+2)\n\tx += uint64(len(t)) + uint64(cap(t))")
	add("copy_dst", "t := make([]uint64, 4)\n\tn := copy(t[bump(q)%2:], s)\n\tx += t[1] + uint64(n)")
	add("copy_src", "t := make([]uint64, 4)\n\tn := copy(t, s[bump(q)%2:])\n\tx += t[1] + uint64(n)")
	add("conversion", "w = uint32(bump(q))\n\tx += uint64(w)")
	add("conversion_u8", "z = uint8(bump(q))\n\tx += uint64(z)")
	add("string_len", "x += uint64(len(bumpStr(q)))")
	add("string_concat", "str2 := str + bumpStr(q)\n\tx += uint64(len(str2))")
	add("string_to_bytes", "bs2 := []byte(bumpStr(q))\n\tx += uint64(len(bs2)) + uint64(bs2[0])")
	add("string_eq", "if bumpStr(q) == \"ev\" {\n\t\tx += 9\n\t}")
	add("encode_put_value", "eb := make([]byte, 16)\n\tmachine.UInt64Put(eb, bump(q))\n\tx += machine.UInt64Get(eb)")
	add("encode_put_offset", "eb := make([]byte, 16)\n\tmachine.UInt64Put(eb[bump(q)%8:], x)\n\tx += uint64(eb[7]) + uint64(eb[8])")
	add("encode_get_offset", "eb := make([]byte, 16)\n\tmachine.UInt64Put(eb, 0x0807060504030201)\n\tx += machine.UInt64Get(eb[bump(q)%8:])")
	add("tostring", "x += uint64(len(machine.UInt64ToString(bump(q))))")
	// conditions and control
	add("if_cond", "if bump(q)%2 == 0 {\n\t\tx += 7\n\t}")
	add("if_cond_else", "if bump(q)%2 == 0 {\n\t\tx += 7\n\t} else {\n\t\tx += 70\n\t}")
	add("elseif_cond", "if x > 1000000 {\n\t\tx += 7\n\t} else if bump(q)%2 == 0 {\n\t\tx += 70\n\t}")
	add("and_not_evaluated", "if x > 18446744073709551614 && bumpBool(q) {\n\t\tx += 1\n\t}")
	add("and_evaluated", "if x < 18446744073709551615 && bumpBool(q) {\n\t\tx += 1\n\t}")
	add("or_not_evaluated", "if x < 18446744073709551615 || bumpBool(q) {\n\t\tx += 1\n\t}")
	add("or_evaluated", "if x > 18446744073709551614 || bumpBool(q) {\n\t\tx += 1\n\t}")
	add("not", "if !bumpBool(q) {\n\t\tx += 1\n\t}")
	add("bool_define", "bq := bumpBool(q) && x < 18446744073709551615\n\tif bq {\n\t\tx += 1\n\t}\n\tif bq {\n\t\tx += 2\n\t}")
	add("compare_left", "if bump(q) == x+3 {\n\t\tx += 1\n\t}")
	add("compare_right", "if x+3 == bump(q) {\n\t\tx += 1\n\t}")
	add("unary_xor", "x += ^bump(q) & 15")
	add("binop_left", "x = bump(q)*3 + 1")
	add("binop_right", "x = 1 + 3*bump(q)")
	add("shift_amount", "x = x << (bump(q) % 3)")
	add("for_init", "for i := bump(q) % 3; i < 5; i++ {\n\t\tx += i\n\t}")
	add("for_cond", "for i := uint64(0); i < bump(q)%4; i++ {\n\t\tx += 1\n\t}")
	add("for_cond_only", "var c uint64 = 0\n\tfor c < bump(q)%4 {\n\t\tc = c + 1\n\t\tx += c\n\t}")
	add("for_post", "for i := uint64(0); i < 4; i = i + bump(q)%2 + 1 {\n\t\tx += i\n\t}")
	add("for_body_break_cond", "for i := uint64(0); i < 9; i++ {\n\t\tif bump(q)%3 == 0 {\n\t\t\tbreak\n\t\t}\n\t\tx += i\n\t}")
	add("range_operand", "for _, v := range mkSlice(bump(q)) {\n\t\tx += v\n\t}")
	add("range_operand_index_only", "for i := range mkSlice(bump(q)) {\n\t\tx += uint64(i)\n\t}")
	add("return_value", "if x > 18446744073709551000 {\n\t\treturn bump(q) + 5\n\t}\n\tx += 1")
	add("call_stmt", "bump(q)")
	add("call_stmt_arg", "sideEffect(q, bump(q))")
	add("go_free", "x += bump(q) + bump32Pure(3)")
	// the counting callee reached in other ways than a declared function: closure, function-typed
	// parameter-like local, method, method value, function-typed field
	callees := []struct{ id, pre, call string }{
		{"closure", "bc := func() uint64 {\n\t\t*q = *q + 1\n\t\treturn *q\n\t}\n\t", "bc()"},
		{"funcvalue", "var bf func(*uint64) uint64 = bump\n\t", "bf(q)"},
		{"method", "", "p.tick(q)"},
		{"methodvalue", "bm := p.tick\n\t", "bm(q)"},
		{"funcfield", "fh := &FnHolder{fn: bump}\n\t", "fh.fn(q)"},
	}
	for _, c := range callees {
		add("callee_"+c.id+"_index_opassign", c.pre+"s["+c.call+"%3] += 5")
		add("callee_"+c.id+"_map_opassign", c.pre+"m["+c.call+"%2] ^= 5")
		add("callee_"+c.id+"_index_read", c.pre+"x += s["+c.call+"%3]")
		add("callee_"+c.id+"_slice_chain", c.pre+"t := s["+c.call+"%2:][:2]\n\tx += t[0] + uint64(len(t))")
		add("callee_"+c.id+"_opassign_rhs", c.pre+"x += "+c.call)
		add("callee_"+c.id+"_cond", c.pre+"if "+c.call+"%2 == 0 {\n\t\tx += 7\n\t}")
		add("callee_"+c.id+"_for_cond", c.pre+"for i := uint64(0); i < "+c.call+"%4; i++ {\n\t\tx += 1\n\t}")
	}
	return out
}

// stringPayloads: byte classes a Go string literal can hold. A double quote is refused by goose
// ("string literals with quotes") and a newline is the recorded finding
// multi-line-string-literal-reindented, so neither is in the must-agree set; both stay in as
// cells (a refusal is a legal outcome, and the newline cell is quarantined by name).
var stringPayloads = []struct{ id, val string }{
	{"plain", "hello"},
	{"empty", ""},
	{"space_edges", "  a b  "},
	{"tab", "a\tb"},
	{"backslash", "c\\d"},
	{"backslash_n_two_bytes", "c\\nd"},
	{"backslash_end", "cd\\"},
	{"cr", "a\rb"},
	{"ctrl1", "a\x01b"},
	{"del", "a\x7fb"},
	{"esc", "a\x1bb"},
	{"latin1", "café"},
	{"cjk", "日本"},
	{"emoji", "a\U0001F600b"},
	{"linesep", "a b"},
	{"nbsp", "a b"},
	{"percent_d", "100%d"},
	{"percent_s", "%s%v%%"},
	{"percent_bang", "%!s(MISSING)"},
	{"squote", "it's"},
	{"backquote", "a`b"},
	{"comment_open", "a(*b"},
	{"comment_close", "a*)b"},
	{"comment_both", "(* x *)"},
	{"hash_paren", "#(str"},
	{"dot_space", "end. Definition"},
	{"dollar", "$a ${b}"},
	{"long", strings.Repeat("abcdefghij", 30)},
	{"spaces_run", "a" + strings.Repeat(" ", 90) + "b"},
}

func stringLiteralAtoms() []OutsideAtom {
	var out []OutsideAtom
	for _, p := range stringPayloads {
		lit := strconv.Quote(p.val)
		// strconv.Quote renders non-printable runes as escapes, which is what we want in Go source;
		// printable non-ASCII stays raw (the file is UTF-8)
		code := fmt.Sprintf("lit := %s\n\tbl := []byte(lit)\n\tx += uint64(len(lit))*1000 + uint64(len(bl))\n\tfor _, bb := range bl {\n\t\tx = x*31 + uint64(bb)\n\t}\n\tcat := str + lit\n\tx += uint64(len(cat))\n\tif lit == str {\n\t\tx += 1\n\t}\n\tif cat != lit {\n\t\tx += 2\n\t}", lit)
		out = append(out, OutsideAtom{ID: "strlit_" + p.id, Kind: "stmt", Code: code, Site: "string literal contents (" + p.id + ") must be the Go string value"})
		// raw-literal spelling of the same bytes where Go allows it (no backquote, no CR)
		if !strings.ContainsAny(p.val, "`\r") && p.val != "" {
			rcode := strings.Replace(code, "lit := "+lit, "lit := `"+p.val+"`", 1)
			out = append(out, OutsideAtom{ID: "strlit_raw_" + p.id, Kind: "stmt", Code: rcode, Site: "raw string literal contents (" + p.id + ")"})
		}
		id := "strlit_const_" + p.id
		out = append(out, OutsideAtom{ID: id, Kind: "decl", Site: "string constant / global / argument contents (" + p.id + ")",
			Code: strings.ReplaceAll(fmt.Sprintf("const ID_c string = %s\n\nvar ID_g string = %s\n\nfunc ID_h(v string) uint64 {\n\tb := []byte(v)\n\tvar t uint64 = uint64(len(v))\n\tfor _, bb := range b {\n\t\tt = t*31 + uint64(bb)\n\t}\n\treturn t\n}\n\nfunc ID_fn(a uint64) uint64 {\n\tmk := make(map[string]uint64)\n\tmk[%s] = 7\n\treturn a + ID_h(ID_c)*3 + ID_h(ID_g)*5 + ID_h(%s) + mk[ID_c] + uint64(len(mk))\n}", lit, lit, lit, lit), "ID", id)})
	}
	return out
}

func ifInitAtoms() []OutsideAtom {
	var out []OutsideAtom
	add := func(id, code string, noloop bool) {
		out = append(out, OutsideAtom{ID: "ifinit_" + id, Kind: "stmt", Code: code, NoLoop: noloop, Site: "ifStmt: if statement initializations (" + id + "); binder scope ends with the if statement"})
	}
	add("define_shadows_used_after", "if y := x + 100; y > 3 {\n\t\tx = y * 2\n\t}\n\tx += y", false)
	add("define_fresh", "if t9 := x + 100; t9 > 3 {\n\t\tx = t9 * 2\n\t}", false)
	add("define_shadow_in_else", "if y := x + 100; y < 3 {\n\t\tx = 1\n\t} else {\n\t\tx = y * 2\n\t}\n\tx += y", false)
	add("commaok_shadows_used_after", "ok := x > 2\n\tv := x + 7\n\tif v, ok := m[9]; ok {\n\t\tx += v\n\t}\n\tif ok {\n\t\tx += v\n\t}", false)
	add("commaok_present_shadows", "ok := x > 100000\n\tv := x + 7\n\tif v, ok := m[1]; ok {\n\t\tx += v * 3\n\t}\n\tif !ok {\n\t\tx += v\n\t}", false)
	add("commaok_fresh", "if v9, ok9 := m[1]; ok9 {\n\t\tx += v9\n\t}", false)
	add("commaok_blank", "if _, ok9 := m[9]; !ok9 {\n\t\tx += 3\n\t}", false)
	add("commaok_shadows_param", "if a, ok9 := m[1]; ok9 {\n\t\tx += a + 1\n\t}\n\tx += a", false)
	add("assign", "if x = x + 1; x > 3 {\n\t\tx += 10\n\t}", false)
	add("incdec", "if x++; x > 3 {\n\t\tx += 10\n\t}", false)
	add("call", "if sideEffect0(); x > 1 {\n\t\tx += 10\n\t}", false)
	add("effect_call", "if bump(q); x > 1 {\n\t\tx += 10\n\t}", false)
	add("multi_result_shadows", "r1 := x + 1000\n\tif r1, r2 := two(x); r1 > r2 {\n\t\tx += r1\n\t} else {\n\t\tx += r2\n\t}\n\tx += r1", false)
	add("elseif_define_shadows", "if x > 1000000 {\n\t\tx = 1\n\t} else if y := x * 2; y > 4 {\n\t\tx += y\n\t}\n\tx += y", false)
	add("early_return_define", "if t9 := s[0]; t9 > 5 {\n\t\treturn t9\n\t}\n\tx += 2", true)
	add("early_return_shadows", "if y := s[0] + 9; y > 14 {\n\t\treturn y\n\t}\n\tx += y", true)
	add("deref_define_shadows", "if y := *q; y > 3 {\n\t\tx += y\n\t}\n\tx += y", false)
	add("var_shadow_of_var", "if x := y + 5; x > 3 {\n\t\ty2 := x\n\t\t*q = *q + y2\n\t}\n\tx += 1", false)
	add("nested_inits", "if y := x + 1; y > 0 {\n\t\tif y := y + 10; y > 0 {\n\t\t\tx += y\n\t\t}\n\t\tx += y\n\t}\n\tx += y", false)
	add("switch_init", "switch y := x + 1; {\n\tcase y > 3:\n\t\tx += y\n\tdefault:\n\t\tx += 1\n\t}\n\tx += y", false)
	return out
}

// likeNames: identifiers that are also library package names (Go side), GooseLang module or
// notation names (Coq side), or predeclared Go identifiers that a declaration may shadow.
var likeNames = []string{"uint32", "uint8", "int", "uint", "disk", "filesys", "machine", "sync", "primitive", "async_disk", "grove_ffi", "log", "fmt", "std",
	"lock", "slice", "waitgroup", "prelude", "FS", "util", "proph", "control", "string", "uint64", "byte", "len", "cap", "append", "new", "true", "false", "nil"}

func namedLikeAtoms() []OutsideAtom {
	var out []OutsideAtom
	for _, n := range likeNames {
		add := func(form, code string) {
			out = append(out, OutsideAtom{ID: "name_" + n + "_" + form, Kind: "stmt", Code: strings.ReplaceAll(code, "NAME", n), Site: "an identifier named " + n + " bound by the program itself (" + form + ") is that variable, not the library's " + n})
		}
		addDecl := func(form, code string) {
			id := "name_" + n + "_" + form
			out = append(out, OutsideAtom{ID: id, Kind: "decl", Code: strings.ReplaceAll(strings.ReplaceAll(code, "NAME", n), "ID", id), Site: "an identifier named " + n + " bound by the program itself (" + form + ")"})
		}
		add("ptr_field_read", "NAME := mkDev(x)\n\tx += NAME.Size + NAME.Read*3 + NAME.f")
		add("value_field_read", "NAME := Dev{Size: x, Read: 2}\n\tx += NAME.Size + NAME.Read*3 + NAME.Write")
		add("field_store", "NAME := mkDev(x)\n\tNAME.Size = 40\n\tNAME.Write += 2\n\tx += NAME.Size + NAME.Write")
		add("method_call", "NAME := mkDev(x)\n\tx += NAME.Barrier(2)\n\tx += NAME.Barrier(3) * 3")
		add("value_method_call", "NAME := Dev{Size: x, Lock: 9}\n\tx += NAME.Total()")
		add("nested_field", "NAME := mkDev(x)\n\tx += NAME.n.f + uint64(NAME.n.g)")
		add("scalar", "NAME := x + 5\n\tx += NAME * 2")
		add("var_scalar", "var NAME uint64 = x + 5\n\tNAME += 1\n\tx += NAME * 2")
		add("slice_index", "NAME := mkSlice(x)\n\tx += NAME[1] + uint64(len(NAME))")
		add("closure_call", "NAME := func(v uint64) uint64 {\n\t\treturn v + 3\n\t}\n\tx += NAME(x)")
		add("range_binder", "for _, NAME := range s {\n\t\tx += NAME\n\t}")
		add("loop_var", "for NAME := uint64(0); NAME < 3; NAME++ {\n\t\tx += NAME\n\t}")
		addDecl("param_field_read", "func ID_h(NAME *Dev) uint64 {\n\treturn NAME.Size + NAME.Read*3 + NAME.Barrier(1)\n}\n\ntype Dev struct {\n\tSize uint64\n\tRead uint64\n}\n\nfunc (d *Dev) Barrier(v uint64) uint64 {\n\td.Size = d.Size + v\n\treturn d.Size\n}\n\nfunc ID_fn(a uint64) uint64 {\n\treturn ID_h(&Dev{Size: a, Read: 2})\n}")
		addDecl("receiver", "type ID_t struct {\n\tSize uint64\n\tRead uint64\n}\n\nfunc (NAME *ID_t) get(v uint64) uint64 {\n\tNAME.Size = NAME.Size + v\n\treturn NAME.Size + NAME.Read\n}\n\nfunc ID_fn(a uint64) uint64 {\n\tt := &ID_t{Size: a, Read: 3}\n\treturn t.get(2)\n}")
		addDecl("struct_field_name", "type ID_t struct {\n\tNAME uint64\n\tother *ID_u\n}\n\ntype ID_u struct {\n\tNAME uint64\n}\n\nfunc ID_fn(a uint64) uint64 {\n\tt := &ID_t{NAME: a, other: &ID_u{NAME: 4}}\n\tt.NAME = t.NAME + 1\n\treturn t.NAME + t.other.NAME\n}")
		if n == "uint32" || n == "uint8" || n == "int" || n == "uint" {
			// the seeded shape: a WIDER type under the name of a narrower predeclared one
			addDecl("wider_type_conversion", "type NAME uint64\n\nfunc ID_keep(v uint64) NAME {\n\treturn NAME(v)\n}\n\nfunc ID_fn(a uint64) uint64 {\n\tr := ID_keep(4294967296 + a%7)\n\tif r > 4294967295 {\n\t\treturn 1\n\t}\n\treturn 2\n}")
		}
		if n == "uint64" || n == "byte" || n == "string" || n == "len" || n == "cap" || n == "new" || n == "append" {
			// a numeric type of another width under the predeclared (or builtin) name, used as a conversion
			addDecl("numeric_type_conversion", "type NAME uint32\n\nfunc ID_h(v uint32) NAME {\n\treturn NAME(v) + 1\n}\n\nfunc ID_fn(a uint64) uint64 {\n\tr := ID_h(4294967295)\n\tif r == 0 {\n\t\treturn a + 1\n\t}\n\treturn a + 2\n}")
		}
		addDecl("global", "var NAME uint64 = 7\n\nfunc ID_fn(a uint64) uint64 {\n\treturn a + NAME\n}")
		addDecl("func", "func NAME(v uint64) uint64 {\n\treturn v + 9\n}\n\nfunc ID_fn(a uint64) uint64 {\n\treturn NAME(a)\n}")
		addDecl("type", "type NAME struct {\n\tSize uint64\n}\n\nfunc (d *NAME) Read(v uint64) uint64 {\n\treturn d.Size + v\n}\n\nfunc ID_fn(a uint64) uint64 {\n\td := &NAME{Size: a}\n\treturn d.Read(2)\n}")
	}
	return out
}

func typeNestingAtoms() []OutsideAtom {
	var out []OutsideAtom
	type ct struct{ id, ty, elem, zero string }
	// composite element types; zero = an expression observing a zero element e (as uint64)
	elems := []ct{
		{"slice_u64", "[]uint64", "", "uint64(len(EE))"},
		{"slice_byte", "[]byte", "", "uint64(len(EE))"},
		{"map_u64", "map[uint64]uint64", "", "mapNil(EE)"},
		{"ptr_h", "*H", "", "ptrNil(EE)"},
		{"struct_h", "H", "", "EE.f + uint64(EE.g)"},
		{"array_u64", "[2]uint64", "", "EE[0] + EE[1]"},
		{"func", "func(uint64) uint64", "", "fnNil(EE)"},
		{"named_slice", "Bytes", "", "uint64(len(EE))"},
		{"named_map", "MapU", "", "mapNil(EE)"},
		{"string", "string", "", "uint64(len(EE))"},
		{"bool", "bool", "", "boolU(EE)"},
		{"u32", "uint32", "", "uint64(EE)"},
		{"slice_slice", "[][]uint64", "", "uint64(len(EE))"},
		{"ptr_u64", "*uint64", "", "ptrNilU(EE)"},
	}
	for _, e := range elems {
		add := func(form, code string) {
			out = append(out, OutsideAtom{ID: "ty_" + form + "_" + e.id, Kind: "stmt", Code: strings.ReplaceAll(code, "TT", e.ty), Site: "composite type " + e.ty + " nested in " + form})
		}
		obs := func(v string) string { return strings.ReplaceAll(e.zero, "EE", v) }
		add("make_slice", "ts := make([]TT, 2)\n\tx += uint64(len(ts)) + "+obs("ts[1]"))
		add("make_map_value", "tm := make(map[uint64]TT)\n\tx += uint64(len(tm)) + "+obs("tm[3]"))
		add("var_slice", "var ts []TT\n\tx += uint64(len(ts))")
		add("var_zero", "var tz TT\n\tx += "+obs("tz"))
		add("new", "tp := new(TT)\n\tx += "+obs("(*tp)"))
		add("append_zero", "var ts []TT\n\tvar tz TT\n\tts = append(ts, tz)\n\tx += uint64(len(ts)) + "+obs("ts[0]"))
		id := "ty_field_" + e.id
		out = append(out, OutsideAtom{ID: id, Kind: "decl", Site: "composite type " + e.ty + " as struct field / slice-of field / map-of field",
			Code: strings.ReplaceAll(strings.ReplaceAll("type H struct {\n\tf uint64\n\tg uint32\n}\n\ntype Bytes []byte\n\ntype MapU map[uint64]uint64\n\nfunc ptrNil(p *H) uint64 {\n\tif p == nil {\n\t\treturn 1\n\t}\n\treturn 0\n}\n\nfunc ptrNilU(p *uint64) uint64 {\n\tif p == nil {\n\t\treturn 1\n\t}\n\treturn 0\n}\n\nfunc fnNil(f func(uint64) uint64) uint64 {\n\tif f == nil {\n\t\treturn 1\n\t}\n\treturn 0\n}\n\nfunc boolU(b bool) uint64 {\n\tif b {\n\t\treturn 1\n\t}\n\treturn 0\n}\n\nfunc mapNil(mp map[uint64]uint64) uint64 {\n\tif mp == nil {\n\t\treturn 1\n\t}\n\treturn 0\n}\n\ntype ID_t struct {\n\tone TT\n\tmany []TT\n\tbykey map[uint64]TT\n\tn uint64\n}\n\nfunc ID_fn(a uint64) uint64 {\n\tt := &ID_t{n: a}\n\tt.many = make([]TT, 2)\n\tt.bykey = make(map[uint64]TT)\n\treturn t.n + uint64(len(t.many)) + uint64(len(t.bykey)) + "+strings.ReplaceAll(e.zero, "EE", "t.one")+" + "+strings.ReplaceAll(e.zero, "EE", "t.many[1]")+"\n}", "TT", e.ty), "ID", id)})
	}
	return out
}

// literalSpellingAtoms: the dimension "how a literal is spelled in the Go source" (the value is what
// counts): integer bases, digit separators, extreme values, in each integer width and in the places a
// literal can stand; escape spellings of string literals.
func literalSpellingAtoms() []OutsideAtom {
	var out []OutsideAtom
	add := func(id, code string) {
		out = append(out, OutsideAtom{ID: "lit_" + id, Kind: "stmt", Code: code, Site: "literal spelling " + id + ": the value of the literal is what the Go compiler reads"})
	}
	ints := []struct{ id, lit string }{
		{"hex", "0xFF"}, {"hex_upper_x", "0XfF"}, {"hex_sep", "0x_FF_FF"}, {"octal_o", "0o17"}, {"octal_legacy", "017"}, {"octal_legacy_zeros", "0017"},
		{"binary", "0b1011"}, {"binary_sep", "0b_1011_0000"}, {"dec_sep", "1_000"}, {"zero_variants", "0x0 + 0o0 + 0b0 + 00"},
	}
	for _, l := range ints {
		add(l.id+"_u64", "x += "+l.lit)
		add(l.id+"_u64_define", "t9 := uint64("+l.lit+")\n\tx += t9")
		// narrow contexts take single literals only (constant EXPRESSIONS in a narrow context are the recorded
		// finding untyped-constant-subexpression-in-narrow-context)
		if !strings.Contains(l.lit, " ") {
			if l.id != "hex_sep" && l.id != "dec_sep" {
				add(l.id+"_u8", "z += "+l.lit+"\n\tx += uint64(z)")
			}
			add(l.id+"_u32", "w += "+l.lit+"\n\tx += uint64(w)")
		}
		add(l.id+"_index", "x += s[("+l.lit+")%4]")
		add(l.id+"_compare", "if x%300 < "+l.lit+" {\n\t\tx += 1\n\t}")
		add(l.id+"_shift", "x = x << (("+l.lit+") % 7)")
	}
	add("max_u64_dec", "x ^= 18446744073709551615")
	add("max_u64_hex", "x ^= 0xFFFFFFFFFFFFFFFF")
	add("max_u64_sep", "x ^= 0xFFFF_FFFF_FFFF_FFFF")
	add("above_int64_dec", "x += 9223372036854775808")
	add("above_int64_hex", "x += 0x8000000000000000")
	add("max_u32_hex", "w ^= 0xFFFFFFFF\n\tx += uint64(w)")
	add("max_u8_octal", "z ^= 0o377\n\tx += uint64(z)")
	add("const_decl_hex", "const lc9 uint64 = 0x10\n\tx += lc9")
	add("rune_literal", "x += uint64('a')")
	add("rune_escape", "x += uint64('\\n') + uint64('\\x41')")
	add("float_const_exact", "x += uint64(1e3)")
	add("imaginary_free_const_expr", "x += 1<<3 | 0x3")
	strs := []struct{ id, lit string }{
		{"hex_escape", `"\x41B"`}, {"octal_escape", `"\101B"`}, {"u4_escape", `"\u0041\u00e9"`}, {"u8_escape", `"\U00000041\U0001F600"`},
		{"bell_etc", `"\a\b\f\v"`}, {"escaped_backslash_t", `"\\t"`}, {"squote_escape_free", `"'"`}, {"mixed", `"a\tb\x00c"`},
		{"raw_with_backslash_x", "`\\x41`"}, {"adjacent_escapes", `"\x5c\x6e"`},
	}
	for _, l := range strs {
		lit := strings.ReplaceAll(l.lit, "\\", "\\")
		add("str_"+l.id, "lit := "+lit+"\n\tbl := []byte(lit)\n\tx += uint64(len(lit)) * 1000\n\tfor _, bb := range bl {\n\t\tx = x*31 + uint64(bb)\n\t}")
	}
	return out
}

// bodyShapeAtoms: the dimension "which statements a body begins and ends with" crossed with the
// constructs that have bodies. Printing decisions (parentheses around a body, `;;` versus `let:`,
// the value of a block) depend on the first and the last statement of a statement list.
func bodyShapeAtoms() []OutsideAtom {
	type st struct{ id, code string }
	// V is the value the container binds (loop element / counter / a%5)
	stmts := []st{
		{"ifonly", "if x > V {\n\t\tx = x - 1\n\t}"},
		{"ifelse", "if V%2 == 0 {\n\t\tx = x + 1\n\t} else {\n\t\tx = x + 2\n\t}"},
		{"varstore", "x = x + V"},
		{"derefstore", "*q = *q + V"},
		{"ptrptrstore", "**qq = **qq + V + 1"},
		{"fieldstore", "p.f = p.f + V"},
		{"elemstore", "s[1] = s[1] + V"},
		{"mapstore", "m[V%3] = x"},
		{"call", "sideEffect1(V)"},
		{"opassign", "x += V * 2"},
		{"nestedloop", "for j2 := uint64(0); j2 < 2; j2++ {\n\t\tx = x + j2 + V\n\t}"},
		{"definethenuse", "t9 := V + 1\n\tx = x + t9"},
	}
	type ct struct{ id, open, close, v string }
	conts := []ct{
		{"rangev", "for _, v := range s {\n", "}\n", "v"},
		{"rangekv", "for i, v := range s {\n\tx = x + uint64(i)\n", "}\n", "v"},
		{"rangemap", "m1 := make(map[uint64]uint64)\n\tm1[5] = 1\n\tfor k, v := range m1 {\n", "}\n", "(k + v)"},
		{"for3", "for j := uint64(0); j < 3; j++ {\n", "}\n", "j"},
		{"forcond", "var c uint64 = 0\n\tfor c < 2 {\n\tc = c + 1\n", "}\n", "c"},
		{"ifthen", "if a%2 == 0 {\n", "}\n", "(a % 5)"},
		{"elsearm", "if a%2 == 1 {\n\tx = x + 9\n} else {\n", "}\n", "(a % 5)"},
		{"closure", "cl := func(v uint64) {\n", "}\n\tcl(a % 5)\n\tcl(3)\n", "v"},
		{"block", "{\n", "}\n", "(a % 5)"},
		{"funcbody", "", "", "(a % 5)"},
	}
	var out []OutsideAtom
	for _, c := range conts {
		for _, f := range stmts {
			for _, l := range stmts {
				if f.id == l.id && f.id != "ifonly" && f.id != "varstore" {
					continue
				}
				id := "body_" + c.id + "_" + f.id + "_" + l.id
				ind := func(code string) string {
					code = strings.ReplaceAll(code, "V", c.v)
					if c.open == "" {
						return "\t" + code + "\n"
					}
					return "\t\t" + strings.ReplaceAll(code, "\n\t", "\n\t\t") + "\n"
				}
				body := ind(f.code) + ind(l.code)
				open := c.open
				if open != "" {
					open = "\t" + strings.ReplaceAll(strings.TrimSuffix(open, "\n"), "\n\t", "\n\t\t") + "\n"
					open = strings.ReplaceAll(open, "\n} else {", "\n\t} else {")
				}
				cls := c.close
				if cls != "" {
					cls = "\t" + cls
				}
				code := "type H struct {\n\tf uint64\n}\n\nfunc sideEffect1(v uint64) {\n}\n\nfunc ID_fn(a uint64) uint64 {\n\tvar x uint64 = a % 10\n\tp := &H{f: 1}\n\ts := make([]uint64, 3)\n\ts[0] = a % 7\n\ts[1] = 2\n\ts[2] = a % 3\n\tm := make(map[uint64]uint64)\n\tm[1] = 4\n\tq := new(uint64)\n\tqq := new(*uint64)\n\t*qq = q\n" +
					open + body + cls + "\treturn x + p.f*3 + s[1]*5 + m[0] + m[1]*7 + m[2]*11 + *q*13\n}"
				out = append(out, OutsideAtom{ID: id, Kind: "decl", Code: strings.ReplaceAll(code, "ID", id), Site: "statement list beginning with " + f.id + " and ending with " + l.id + " as the body of " + c.id})
			}
		}
	}
	return out
}

// rejectedConstructFamilies: constructs goose refuses today, each in the variants whose meaning is
// easiest to get wrong if a later version starts to accept them (C02: accepted means faithful).
func rejectedConstructFamilies() []OutsideAtom {
	var out []OutsideAtom
	add := func(id, code string, noloop bool) {
		out = append(out, OutsideAtom{ID: id, Kind: "stmt", Code: code, NoLoop: noloop, Site: "rejected construct, tricky variant: " + id})
	}
	addDecl := func(id, code string) {
		out = append(out, OutsideAtom{ID: id, Kind: "decl", Code: strings.ReplaceAll(code, "ID", id), Site: "rejected construct, tricky variant: " + id})
	}
	// --- parallel assignment: all right-hand sides are evaluated before any store
	add("passign_swap_vars", "var x2 uint64 = 3\n\tx, x2 = x2, x\n\tx += x2 * 10", false)
	add("passign_rotate3", "var x2 uint64 = 3\n\tvar x3 uint64 = 5\n\tx, x2, x3 = x2, x3, x\n\tx += x2*10 + x3*100", false)
	add("passign_alias_pointer", "var x2 uint64 = 1\n\tvar x3 uint64 = 2\n\tpx := &x2\n\tx2, x3 = 7, *px\n\tx += x2*10 + x3*100", false)
	add("passign_alias_closure", "var x2 uint64 = 1\n\tvar x3 uint64 = 2\n\tget := func() uint64 {\n\t\treturn x2\n\t}\n\tx2, x3 = 7, get()\n\tx += x2*10 + x3*100", false)
	add("passign_alias_deref_target", "var x3 uint64 = 2\n\t*q, x3 = 7, *q+1\n\tx += x3 * 100", false)
	add("passign_elems_swap", "s[0], s[1] = s[1]+1, s[0]+2", false)
	add("passign_elem_and_index", "var i2 uint64 = 1\n\ti2, s[i2] = 2, 9\n\tx += i2", false)
	add("passign_fields_swap", "p.f, p.g = uint64(p.g)+1, uint32(p.f)+2", false)
	add("passign_map_swap", "m[1], m[2] = m[2]+5, m[1]+6", false)
	add("passign_independent", "var x2 uint64 = 1\n\tvar x3 uint64 = 2\n\tx2, x3 = y+1, y+2\n\tx += x2*10 + x3*100", false)
	add("passign_define_mixed", "x2, x3 := y+1, x+2\n\tx += x2*10 + x3*100", false)
	add("passign_effect_order", "var x2 uint64 = 0\n\tvar x3 uint64 = 0\n\tx2, x3 = bump(q), *q\n\tx += x2*10 + x3*100", false)
	// --- switch
	add("switch_tagless_basic", "switch {\n\tcase x > 100:\n\t\tx = 1\n\tcase x > 5:\n\t\tx = x + 2\n\tdefault:\n\t\tx = x + 3\n\t}", false)
	add("switch_tag_var", "switch y {\n\tcase 1:\n\t\tx = 50\n\tcase 4, 9:\n\t\tx = x + 60\n\tdefault:\n\t\tx = x + 70\n\t}", false)
	add("switch_default_first", "switch y {\n\tdefault:\n\t\tx = x + 70\n\tcase 1:\n\t\tx = 50\n\t}", false)
	add("switch_no_default", "switch y {\n\tcase 1:\n\t\tx = 50\n\tcase 4:\n\t\tx = x + 60\n\t}", false)
	add("switch_tag_call_once", "switch bump(q) % 3 {\n\tcase 0:\n\t\tx = x + 1\n\tcase 1:\n\t\tx = x + 2\n\tcase 2:\n\t\tx = x + 3\n\t}", false)
	add("switch_case_expr_effects", "switch y {\n\tcase bump(q):\n\t\tx = x + 1\n\tcase bump(q) + 100:\n\t\tx = x + 2\n\tdefault:\n\t\tx = x + 3\n\t}", false)
	add("switch_fallthrough", "switch {\n\tcase x > 5:\n\t\tx = x + 1\n\t\tfallthrough\n\tcase x > 1000000:\n\t\tx = x + 10\n\tdefault:\n\t\tx = x + 100\n\t}", false)
	add("switch_break_in_clause", "switch {\n\tcase x > 5:\n\t\tif y > 3 {\n\t\t\tbreak\n\t\t}\n\t\tx = x + 10\n\tdefault:\n\t\tx = x + 100\n\t}\n\tx += 1", false)
	add("switch_last_in_loop_break", "for i := uint64(0); i < 4; i++ {\n\t\tx += 1\n\t\tswitch {\n\t\tcase i == 1:\n\t\t\tbreak\n\t\tdefault:\n\t\t\tx += 10\n\t\t}\n\t}", true)
	add("switch_last_in_loop_break_in_if", "for i := uint64(0); i < 4; i++ {\n\t\tx += 1\n\t\tswitch {\n\t\tcase i > 0:\n\t\t\tif i == 2 {\n\t\t\t\tbreak\n\t\t\t}\n\t\t\tx += 10\n\t\tdefault:\n\t\t\tx += 100\n\t\t}\n\t}", true)
	add("switch_last_in_range_break", "for _, v := range s {\n\t\tswitch v {\n\t\tcase 0:\n\t\t\tbreak\n\t\tdefault:\n\t\t\tx += v\n\t\t}\n\t}", true)
	add("switch_in_loop_continue", "for i := uint64(0); i < 4; i++ {\n\t\tswitch {\n\t\tcase i == 1:\n\t\t\tcontinue\n\t\tdefault:\n\t\t\tx += 10\n\t\t}\n\t\tx += 1\n\t}", true)
	add("switch_mid_loop_break", "for i := uint64(0); i < 4; i++ {\n\t\tswitch {\n\t\tcase i == 1:\n\t\t\tbreak\n\t\tdefault:\n\t\t\tx += 10\n\t\t}\n\t\tx += 1\n\t}", true)
	add("switch_return_in_clause", "switch {\n\tcase x > 250:\n\t\treturn x + 5\n\tcase x > 5:\n\t\tx = x + 2\n\t}\n\tx += 1", true)
	add("switch_all_clauses_return", "switch {\n\tcase x > 250:\n\t\treturn x + 5\n\tdefault:\n\t\treturn x + 6\n\t}", true)
	add("switch_init", "switch t9 := x % 3; t9 {\n\tcase 0:\n\t\tx = x + 1\n\tdefault:\n\t\tx = x + t9\n\t}", false)
	add("switch_shadow_in_clause", "switch {\n\tcase x > 5:\n\t\ty := x * 2\n\t\tx = y + 1\n\tdefault:\n\t\ty := x + 3\n\t\tx = y\n\t}\n\tx += y", false)
	add("switch_duplicate_capable_cases", "switch x % 4 {\n\tcase 0, 1:\n\t\tx = x + 1\n\tcase 2:\n\t\tx = x + 2\n\tcase 3:\n\t}\n\tx += 5", false)
	add("switch_on_string", "switch str {\n\tcase \"abc\":\n\t\tx = x + 1\n\tcase \"abd\":\n\t\tx = x + 2\n\t}", false)
	add("switch_on_bool_tag", "switch x > 5 {\n\tcase true:\n\t\tx = x + 1\n\tcase false:\n\t\tx = x + 2\n\t}", false)
	add("switch_u32_tag", "switch w {\n\tcase 9:\n\t\tx = x + 1\n\tcase 10:\n\t\tx = x + 2\n\t}", false)
	// --- unsupported assignment operators on every l-value kind and width
	for _, op := range []struct{ id, op string }{{"mul", "*="}, {"quo", "/="}, {"rem", "%="}, {"shl", "<<="}, {"shr", ">>="}, {"andnot", "&^="}} {
		rhs := "3"
		add("opx_"+op.id+"_var", "x "+op.op+" "+rhs, false)
		add("opx_"+op.id+"_u32", "w "+op.op+" "+rhs+"\n\tx += uint64(w)", false)
		add("opx_"+op.id+"_u8", "z "+op.op+" "+rhs+"\n\tx += uint64(z)", false)
		add("opx_"+op.id+"_field", "p.f "+op.op+" "+rhs, false)
		add("opx_"+op.id+"_field_u32", "p.g "+op.op+" "+rhs, false)
		add("opx_"+op.id+"_elem", "s[2] "+op.op+" "+rhs, false)
		add("opx_"+op.id+"_map", "m[1] "+op.op+" "+rhs, false)
		add("opx_"+op.id+"_deref", "*q "+op.op+" "+rhs, false)
		add("opx_"+op.id+"_elem_effect_index", "s[bump(q)%3] "+op.op+" "+rhs, false)
		add("opx_"+op.id+"_deref_var_pointer", "var pq *uint64 = q\n\t*pq "+op.op+" "+rhs+"\n\tx += *pq", false)
		add("opx_"+op.id+"_field_var_pointer", "var pp *H = p\n\tpp.f "+op.op+" "+rhs+"\n\tx += pp.f", false)
		add("opx_"+op.id+"_elem_var_slice", "var ss []uint64 = s\n\tss[2] "+op.op+" "+rhs+"\n\tx += ss[2]", false)
	}
	// --- inc/dec on every l-value kind
	for _, op := range []string{"++", "--"} {
		id := map[string]string{"++": "inc", "--": "dec"}[op]
		add("incx_"+id+"_field", "p.f"+op, false)
		add("incx_"+id+"_field_u32", "p.g"+op, false)
		add("incx_"+id+"_field_u8", "p.b"+op, false)
		add("incx_"+id+"_elem", "s[2]"+op, false)
		add("incx_"+id+"_elem_effect_index", "s[bump(q)%3]"+op, false)
		add("incx_"+id+"_map", "m[1]"+op, false)
		add("incx_"+id+"_map_absent", "m[77]"+op+"\n\tx += m[77] + uint64(len(m))", false)
		add("incx_"+id+"_deref", "(*q)"+op, false)
		// ++/-- on a uint32 / byte VARIABLE is the recorded C01 finding incdec-on-narrow-integer (the gold
		// files pin `+ #1`): not repeated here
		// the same targets reached through VAR-declared (pointer-wrapped) variables
		add("incx_"+id+"_deref_var_pointer", "var pq *uint64 = q\n\t(*pq)"+op+"\n\tx += *pq", false)
		add("incx_"+id+"_deref_var_pointer_noparen", "var pq *uint64 = q\n\t*pq"+op+"\n\tx += *pq", false)
		add("incx_"+id+"_field_var_pointer", "var pp *H = p\n\tpp.f"+op+"\n\tx += pp.f", false)
		add("incx_"+id+"_elem_var_slice", "var ss []uint64 = s\n\tss[2]"+op+"\n\tx += ss[2]", false)
		add("incx_"+id+"_map_var_map", "var mm map[uint64]uint64 = m\n\tmm[1]"+op+"\n\tx += mm[1]", false)
		add("incx_"+id+"_field_var_struct", "var hv H\n\thv.f = x\n\thv.f"+op+"\n\tx += hv.f", false)
		add("incx_"+id+"_param", "a"+op+"\n\tx += a", false)
		add("incx_"+id+"_define_bound", "y2 := y\n\ty2"+op+"\n\tx += y2", false)
	}
	// --- defer
	add("defer_modifies_result_var", "defer func() {\n\t\tx = x + 1000\n\t}()\n\tx += 1", true)
	add("defer_order", "defer func() {\n\t\t*q = *q * 2\n\t}()\n\tdefer func() {\n\t\t*q = *q + 1\n\t}()\n\tx += *q", true)
	add("defer_args_evaluated_early", "defer sideEffect(q, x)\n\tx += 5", true)
	addDecl("defer_named_result", "func ID_h(a uint64) (r uint64) {\n\tdefer func() {\n\t\tr = r + 100\n\t}()\n\treturn a + 1\n}\n\nfunc ID_fn(a uint64) uint64 {\n\treturn ID_h(a % 50)\n}")
	addDecl("defer_in_loop", "func ID_h(a uint64, p *uint64) {\n\tfor i := uint64(0); i < 3; i++ {\n\t\tk := i\n\t\tdefer func() {\n\t\t\t*p = *p*10 + k\n\t\t}()\n\t}\n\t*p = a % 7\n}\n\nfunc ID_fn(a uint64) uint64 {\n\tp := new(uint64)\n\tID_h(a, p)\n\treturn *p\n}")
	addDecl("defer_unlock_then_read", "func ID_h(mu *sync.Mutex, p *uint64) uint64 {\n\tmu.Lock()\n\tdefer mu.Unlock()\n\t*p = *p + 1\n\treturn *p\n}\n\nfunc ID_fn(a uint64) uint64 {\n\tmu := new(sync.Mutex)\n\tp := new(uint64)\n\t*p = a % 9\n\tr := ID_h(mu, p)\n\tmu.Lock()\n\tr = r + *p\n\tmu.Unlock()\n\treturn r\n}")
	// --- named results
	addDecl("named_result_bare_return", "func ID_h(a uint64) (r uint64, ok bool) {\n\tr = a + 1\n\tif a > 3 {\n\t\tok = true\n\t\treturn\n\t}\n\tr = r * 2\n\treturn\n}\n\nfunc ID_fn(a uint64) uint64 {\n\tr, ok := ID_h(a % 8)\n\tif ok {\n\t\treturn r + 100\n\t}\n\treturn r\n}")
	addDecl("named_result_shadowed", "func ID_h(a uint64) (r uint64) {\n\tr = a\n\tif a > 2 {\n\t\tr := a * 10\n\t\t_ = r\n\t}\n\treturn r + 1\n}\n\nfunc ID_fn(a uint64) uint64 {\n\treturn ID_h(a % 8)\n}")
	addDecl("named_result_explicit_values", "func ID_h(a uint64) (r uint64, s uint64) {\n\tr = 5\n\treturn a + 1, r\n}\n\nfunc ID_fn(a uint64) uint64 {\n\tx, y := ID_h(a % 8)\n\treturn x*10 + y\n}")
	// --- goto / labels beyond the catalogue
	add("goto_backward_loop", "var gi uint64 = 0\nagain:\n\tx += gi\n\tgi = gi + 1\n\tif gi < 3 {\n\t\tgoto again\n\t}", true)
	// --- struct / array values
	add("struct_assign_copies", "h2 := H{f: x}\n\tvar h3 H\n\th3 = h2\n\th3.f = h3.f + 1\n\tx += h2.f*10 + h3.f", false)
	add("struct_compare_ne", "h2 := H{f: x}\n\th3 := H{f: x, g: 1}\n\tif h2 != h3 {\n\t\tx += 4\n\t}", false)
	add("array_assign_copies", "var a1 [2]uint64\n\ta1[0] = x\n\ta2 := a1\n\ta2[0] = a2[0] + 1\n\tx += a1[0]*10 + a2[0]", false)
	add("array_range", "var a1 [3]uint64\n\ta1[1] = x\n\tfor i, v := range a1 {\n\t\tx += v + uint64(i)\n\t}", false)
	add("array_of_array", "var a1 [2][2]uint64\n\ta1[1][0] = x\n\tx += a1[1][0] + a1[0][1]", false)
	add("slice_of_array", "var a1 [4]uint64\n\ta1[1] = x\n\tt := a1[1:3]\n\tt[0] = t[0] + 1\n\tx += a1[1] + uint64(len(t))", false)
	// --- range forms
	add("range_int_var", "n9 := 3\n\tfor i := range n9 {\n\t\tx += uint64(i)\n\t}", false)
	add("range_int_bound_var_modified", "var n9 uint64 = 4\n\tfor i := range n9 {\n\t\tn9 = n9 - 1\n\t\tx += i + 1\n\t}\n\tx += n9", false)
	add("range_int_bound_deref_modified", "*q = 3\n\tfor range *q {\n\t\t*q = *q + 1\n\t\tx += 1\n\t}", false)
	add("range_int_loopvar_assigned", "for i := range uint64(4) {\n\t\tx += i\n\t\ti = i + 2\n\t\tx += i\n\t}", false)
	add("range_int_param", "for i := range a % 4 {\n\t\tx += i\n\t}", false)
	add("range_int_no_var", "for range 3 {\n\t\tx += 2\n\t}", false)
	add("range_int_field_bound", "p.f = 3\n\tfor i := range p.f {\n\t\tp.f = 1\n\t\tx += i + 1\n\t}", false)
	add("range_string_index", "for i := range str {\n\t\tx += uint64(i)\n\t}", false)
	add("range_modifies_slice_var", "var t []uint64\n\tt = append(t, 1)\n\tt = append(t, 2)\n\tfor _, v := range t {\n\t\tif v == 1 {\n\t\t\tt = append(t, 9)\n\t\t}\n\t\tx += v\n\t}\n\tx += uint64(len(t))", false)
	add("range_value_is_copy", "hs := make([]H, 2)\n\tfor _, hv := range hs {\n\t\thv.f = 9\n\t\tx += hv.f\n\t}\n\tx += hs[0].f", false)
	add("range_pointer_elems", "ps := make([]*H, 2)\n\tps[0] = p\n\tps[1] = &H{f: 2}\n\tfor _, hp := range ps {\n\t\thp.f = hp.f + 1\n\t}\n\tx += ps[1].f", false)
	// --- define form versus assignment form of every binding construct; := that re-uses a variable
	add("define_reuses_var_first", "var a1 uint64 = 1\n\ta1, b1 := two(x)\n\ta1 = a1 + 1\n\tx += a1*10 + b1", false)
	add("define_reuses_var_second", "var b1 uint64 = 1\n\ta1, b1 := two(x)\n\tb1 = b1 + 1\n\tx += a1*10 + b1", false)
	add("define_reuses_var_read_only", "var a1 uint64 = 1\n\ta1, b1 := two(x)\n\tx += a1*10 + b1", false)
	add("define_reuses_in_inner_scope_is_new", "var a1 uint64 = 1\n\tif x > 0 {\n\t\ta1, b1 := two(x)\n\t\tx += a1 + b1\n\t}\n\tx += a1", false)
	add("define_reuses_commaok", "var v9 uint64 = 5\n\tv9, ok9 := m[1]\n\tif ok9 {\n\t\tx += v9\n\t}", false)
	add("define_reuses_param", "a, b1 := two(x)\n\tx += a + b1", false)
	add("define_reuses_letbound_captured_by_closure", "ok9 := x > 1000000\n\tseen := func() bool {\n\t\treturn ok9\n\t}\n\tv9, ok9 := m[1]\n\tif seen() {\n\t\tx += 1000\n\t}\n\tif ok9 {\n\t\tx += v9\n\t}", false)
	add("define_reuses_letbound_plain", "ok9 := x > 1000000\n\tv9, ok9 := m[1]\n\tif ok9 {\n\t\tx += v9 + 1\n\t}", false)
	add("define_reuses_letbound_in_loop_body", "ok9 := false\n\tfor i := uint64(0); i < 2; i++ {\n\t\tif ok9 {\n\t\t\tx += 100\n\t\t}\n\t\tv9, ok9 := m[1]\n\t\tif ok9 {\n\t\t\tx += v9\n\t\t}\n\t}", false)
	add("range_assign_value", "var v9 uint64 = 7\n\tfor _, v9 = range s {\n\t}\n\tx += v9", false)
	add("range_assign_key", "var k9 int\n\tfor k9 = range s {\n\t}\n\tx += uint64(k9)", false)
	add("range_assign_both", "var k9 int\n\tvar v9 uint64\n\tfor k9, v9 = range s {\n\t\tx += v9\n\t}\n\tx += uint64(k9) + v9", false)
	add("range_assign_map", "var k9 uint64\n\tvar v9 uint64\n\tfor k9, v9 = range m {\n\t}\n\tx += k9 + v9", false)
	add("commaok_assign_present", "var v9 uint64\n\tvar ok9 bool\n\tv9, ok9 = m[1]\n\tif ok9 {\n\t\tx += v9 + 1\n\t}", false)
	add("commaok_assign_absent", "var v9 uint64 = 4\n\tvar ok9 bool = true\n\tv9, ok9 = m[77]\n\tif !ok9 {\n\t\tx += v9 + 100\n\t}", false)
	add("commaok_assign_blank_value", "var ok9 bool\n\t_, ok9 = m[1]\n\tif ok9 {\n\t\tx += 1\n\t}", false)
	add("commaok_assign_to_fields", "var ok9 bool\n\tp.f, ok9 = m[1]\n\tif ok9 {\n\t\tx += 1\n\t}", false)
	add("typeassert_commaok_assign", "var iface interface{} = x\n\tvar v9 uint64\n\tvar ok9 bool\n\tv9, ok9 = iface.(uint64)\n\tif ok9 {\n\t\tx += v9\n\t}", false)
	// --- strings and arrays as operands of the slice forms
	add("string_take", "t9 := str[:2]\n\tx += uint64(len(t9))", false)
	add("string_skip_take", "t9 := str[1:2]\n\tx += uint64(len(t9))", false)
	add("string_skip", "t9 := str[1:]\n\tx += uint64(len(t9))", false)
	add("string_take_param", "x += uint64(len(str[:x%3]))", false)
	add("array_take", "var a1 [4]uint64\n\ta1[0] = x\n\tt9 := a1[:2]\n\tx += t9[0] + uint64(len(t9))", false)
	add("array_pointer_take", "pa1 := new([4]uint64)\n\tpa1[0] = x\n\tt9 := pa1[:2]\n\tx += t9[0] + uint64(len(t9))", false)
	add("named_slice_take", "nb := make(Bytes, 3)\n\tt9 := nb[:2]\n\tx += uint64(len(t9)) + uint64(cap(t9))", false)
	// --- parenthesised assignment targets (legal Go; the statement must not vanish)
	add("paren_lhs_var", "(x) = x + 5", false)
	add("paren_lhs_var_twice", "((x)) = x + 5", false)
	add("paren_lhs_field", "(p.f) = p.f + 7", false)
	add("paren_lhs_elem", "(s[1]) = 9", false)
	add("paren_lhs_deref", "(*q) = *q + 3", false)
	add("paren_lhs_map", "(m[1]) = 4", false)
	add("paren_lhs_opassign", "(x) += 2", false)
	add("paren_lhs_inner_paren", "(*(q)) = 6\n\t(p).f = 8", false)
	add("paren_lhs_multi", "var x2 uint64\n\t(x2), (s[2]) = two(x)\n\tx += x2", false)
	// --- stores into struct VALUES that are not heap cells
	add("fieldassign_define_bound", "c9 := H{f: x}\n\tc9.f = 1000\n\tx += c9.f", false)
	add("fieldassign_define_bound_opassign", "c9 := H{f: x}\n\tc9.f += 5\n\tx += c9.f", false)
	add("fieldassign_nested_value", "o9 := Outer{n: x}\n\to9.in.f = 7\n\tx += o9.in.f + o9.n", false)
	add("fieldassign_var_ok", "var c9 H\n\tc9.f = x + 1\n\tc9.g += 2\n\tx += c9.f + uint64(c9.g)", false)
	add("fieldassign_var_nested_ok", "var o9 Outer\n\to9.in.f = x + 1\n\to9.n = 3\n\tx += o9.in.f + o9.n", false)
	addDecl("fieldassign_param_struct", "type ID_t struct {\n\tv uint64\n}\n\nfunc ID_h(t ID_t, a uint64) uint64 {\n\tt.v = t.v + a\n\treturn t.v\n}\n\nfunc ID_fn(a uint64) uint64 {\n\tt := ID_t{v: 2}\n\treturn ID_h(t, a%9) + t.v\n}")
	addDecl("fieldassign_value_receiver", "type ID_t struct {\n\tv uint64\n}\n\nfunc (t ID_t) bump(a uint64) uint64 {\n\tt.v = t.v + a\n\treturn t.v\n}\n\nfunc ID_fn(a uint64) uint64 {\n\tt := ID_t{v: 2}\n\treturn t.bump(a%9) + t.v\n}")
	// --- generic TYPES (only generic functions are in the subset) in every type position
	gpre := "type ID_box[T any] struct {\n\tv T\n}\n\ntype ID_list[T any] []T\n\n"
	addDecl("generic_type_var", gpre+"func ID_fn(a uint64) uint64 {\n\tvar b ID_box[uint64]\n\tb.v = a + 1\n\treturn b.v\n}")
	addDecl("generic_type_literal", gpre+"func ID_fn(a uint64) uint64 {\n\tb := ID_box[uint64]{v: a + 1}\n\treturn b.v\n}")
	addDecl("generic_type_new", gpre+"func ID_fn(a uint64) uint64 {\n\tb := new(ID_box[uint64])\n\tb.v = a + 1\n\treturn b.v\n}")
	addDecl("generic_type_param", gpre+"func ID_h(b *ID_box[uint64]) uint64 {\n\treturn b.v + 1\n}\n\nfunc ID_fn(a uint64) uint64 {\n\treturn ID_h(&ID_box[uint64]{v: a})\n}")
	addDecl("generic_type_slice_elem", gpre+"func ID_fn(a uint64) uint64 {\n\tbs := make([]ID_box[uint64], 2)\n\tbs[1] = ID_box[uint64]{v: a}\n\treturn bs[1].v + bs[0].v\n}")
	addDecl("generic_type_map_value", gpre+"func ID_fn(a uint64) uint64 {\n\tbm := make(map[uint64]ID_box[uint64])\n\tbm[1] = ID_box[uint64]{v: a}\n\treturn bm[1].v\n}")
	addDecl("generic_type_field", gpre+"type ID_outer struct {\n\tb ID_box[uint64]\n\tn uint64\n}\n\nfunc ID_fn(a uint64) uint64 {\n\to := &ID_outer{n: a}\n\to.b.v = 3\n\treturn o.n + o.b.v\n}")
	addDecl("generic_type_method", gpre+"func (b *ID_box[T]) get() T {\n\treturn b.v\n}\n\nfunc ID_fn(a uint64) uint64 {\n\tb := &ID_box[uint64]{v: a + 2}\n\treturn b.get()\n}")
	addDecl("generic_type_value_method", gpre+"func (b ID_box[T]) get() T {\n\treturn b.v\n}\n\nfunc ID_fn(a uint64) uint64 {\n\tb := ID_box[uint64]{v: a + 2}\n\treturn b.get()\n}")
	addDecl("generic_named_slice", gpre+"func ID_fn(a uint64) uint64 {\n\tvar l ID_list[uint64]\n\tl = append(l, a)\n\treturn l[0] + uint64(len(l))\n}")
	addDecl("generic_type_two_instances", gpre+"func ID_fn(a uint64) uint64 {\n\tb1 := &ID_box[uint64]{v: a}\n\tb2 := &ID_box[uint32]{v: 7}\n\treturn b1.v + uint64(b2.v)\n}")
	addDecl("generic_func_over_generic_type", gpre+"func ID_get[T any](b *ID_box[T]) T {\n\treturn b.v\n}\n\nfunc ID_fn(a uint64) uint64 {\n\treturn ID_get[uint64](&ID_box[uint64]{v: a + 4})\n}")
	// --- anonymous interface types in every type position
	addDecl("anon_iface_param", "type ID_s struct {\n\tv uint64\n}\n\nfunc ID_h(x interface{}, a uint64) uint64 {\n\treturn a + 1\n}\n\nfunc ID_fn(a uint64) uint64 {\n\treturn ID_h(ID_s{v: 1}, a)\n}")
	addDecl("anon_iface_any_param", "func ID_h(x any, a uint64) uint64 {\n\treturn a + 1\n}\n\nfunc ID_fn(a uint64) uint64 {\n\treturn ID_h(a, a)\n}")
	addDecl("anon_iface_method_literal_param", "type ID_s struct {\n\tv uint64\n}\n\nfunc (s ID_s) get() uint64 {\n\treturn s.v\n}\n\nfunc ID_h(x interface{ get() uint64 }) uint64 {\n\treturn x.get() + 1\n}\n\nfunc ID_fn(a uint64) uint64 {\n\treturn ID_h(ID_s{v: a})\n}")
	addDecl("anon_iface_field", "type ID_t struct {\n\tx interface{}\n\tn uint64\n}\n\nfunc ID_fn(a uint64) uint64 {\n\tt := &ID_t{n: a}\n\tt.x = a\n\treturn t.n + 1\n}")
	addDecl("anon_iface_slice_elem", "func ID_fn(a uint64) uint64 {\n\txs := make([]interface{}, 2)\n\txs[0] = a\n\treturn uint64(len(xs)) + a\n}")
	addDecl("anon_iface_map_value", "func ID_fn(a uint64) uint64 {\n\txm := make(map[uint64]interface{})\n\txm[1] = a\n\treturn uint64(len(xm)) + a\n}")
	addDecl("anon_iface_result", "func ID_h(a uint64) interface{} {\n\treturn a\n}\n\nfunc ID_fn(a uint64) uint64 {\n\tv := ID_h(a)\n\tif v == nil {\n\t\treturn 0\n\t}\n\treturn a + 1\n}")
	addDecl("anon_iface_named_type", "type ID_any interface{}\n\nfunc ID_h(x ID_any, a uint64) uint64 {\n\treturn a + 1\n}\n\nfunc ID_fn(a uint64) uint64 {\n\treturn ID_h(a, a)\n}")
	addDecl("anon_iface_var_assign", "func ID_fn(a uint64) uint64 {\n\tvar x interface{}\n\tx = a\n\tif x != nil {\n\t\treturn a + 1\n\t}\n\treturn 0\n}")
	// --- type assertions and type switches on a named interface value
	ipre := "type ID_i interface {\n\tget() uint64\n}\n\ntype ID_s struct {\n\tv uint64\n}\n\nfunc (s *ID_s) get() uint64 {\n\treturn s.v\n}\n\ntype ID_t struct {\n\tw uint64\n}\n\nfunc (t ID_t) get() uint64 {\n\treturn t.w * 2\n}\n\n"
	addDecl("typeassert_pointer", ipre+"func ID_h(i ID_i) uint64 {\n\tp := i.(*ID_s)\n\treturn p.v + 1\n}\n\nfunc ID_fn(a uint64) uint64 {\n\treturn ID_h(&ID_s{v: a})\n}")
	addDecl("typeassert_pointer_commaok", ipre+"func ID_h(i ID_i) uint64 {\n\tp, ok := i.(*ID_s)\n\tif ok {\n\t\treturn p.v + 1\n\t}\n\treturn 0\n}\n\nfunc ID_fn(a uint64) uint64 {\n\treturn ID_h(&ID_s{v: a}) + ID_h(ID_t{w: a})\n}")
	addDecl("typeassert_struct_value", ipre+"func ID_h(i ID_i) uint64 {\n\tt := i.(ID_t)\n\treturn t.w + 1\n}\n\nfunc ID_fn(a uint64) uint64 {\n\treturn ID_h(ID_t{w: a})\n}")
	addDecl("typeassert_to_interface", ipre+"type ID_j interface {\n\tget() uint64\n}\n\nfunc ID_h(i ID_i) uint64 {\n\tj := i.(ID_j)\n\treturn j.get() + 1\n}\n\nfunc ID_fn(a uint64) uint64 {\n\treturn ID_h(ID_t{w: a})\n}")
	addDecl("typeswitch_pointer_cases", ipre+"func ID_h(i ID_i) uint64 {\n\tswitch v := i.(type) {\n\tcase *ID_s:\n\t\treturn v.v + 1\n\tcase ID_t:\n\t\treturn v.w + 2\n\t}\n\treturn 0\n}\n\nfunc ID_fn(a uint64) uint64 {\n\treturn ID_h(&ID_s{v: a})*10 + ID_h(ID_t{w: a})\n}")
	// --- min / max / clear builtins
	add("max_builtin", "x = max(x, 3, y)", false)
	add("clear_map_builtin", "clear(m)\n\tx += uint64(len(m))", false)
	add("clear_slice_builtin", "clear(s)\n\tx += s[0] + s[2]", false)
	return out
}
