package gen

import (
	"fmt"
	"regexp"
	"strings"
)

var wordA = regexp.MustCompile(`\ba\b`)

// matrix.go: the "places × operations" matrix. Every operation the subset has on a value of
// some type is applied to that value living in every kind of place (define-bound local,
// var-declared local, parameter, struct field through pointer / var struct / value struct,
// pointer dereference, double pointer, slice element, map element, call result, nested
// field, global). Each cell is one function plus closed cases. Cells are judged
// rejected-or-faithful: goose may refuse a cell, but what it accepts must agree with Go.

type place struct {
	id string
	// setup declares what the place needs (statements); %T is the Go type, %V an initial value expression
	setup string
	// expr is the expression denoting the place's value
	expr string
	// lvalue reports whether expr can be assigned to
	lvalue bool
	// decls are extra top-level declarations ("" if none); %T as above
	decls string
}

type cellType struct {
	id    string
	goT   string
	init  string // an expression of the type built from parameter a (uint64)
	init2 string // another value
}

var cellTypes = []cellType{
	{"u64", "uint64", "a + 3", "a * 7"},
	{"u32", "uint32", "uint32(a) + 3", "uint32(a) * 7"},
	{"u8", "byte", "byte(a) + 3", "byte(a) * 7"},
	{"bool", "bool", "a > 2", "a == 0"},
	{"str", "string", "mkstr(a)", "mkstr(a + 1)"},
	{"su64", "[]uint64", "mkslice(a)", "mkslice(a + 2)"},
	{"sb", "[]byte", "mkbytes(a)", "mkbytes(a + 2)"},
	{"ptr", "*Rec", "mkrec(a)", "mkrec(a + 5)"},
	{"rec", "Rec", "Rec{n: a, w: 4, tag: 9}", "Rec{n: a + 1}"},
	{"map", "map[uint64]uint64", "mkmap(a)", "mkmap(a + 1)"},
	{"srec", "[]Rec", "mkrecs(a)", "mkrecs(a + 3)"},
	{"sptr", "[]*Rec", "mkptrs(a)", "mkptrs(a + 3)"},
	{"wrap", "*Wrap", "mkwrap(a)", "mkwrap(a + 9)"},
	{"mstr", "map[string]uint64", "mkmstr(a)", "mkmstr(a + 1)"},
	{"pu64", "*uint64", "mkpu64(a)", "mkpu64(a + 1)"},
	{"pu8", "*byte", "mkpu8(a)", "mkpu8(a + 1)"},
	{"fn", "func(uint64) uint64", "mkfn(a)", "mkfn(a + 1)"},
	{"sstr", "[]string", "mkstrs(a)", "mkstrs(a + 1)"},
	{"msl", "map[uint64][]byte", "mkmsl(a)", "mkmsl(a + 1)"},
}

const matrixPrelude = `type Rec struct {
	n   uint64
	w   uint32
	tag byte
	xs  []uint64
}

func (r *Rec) bump(d uint64) uint64 {
	r.n = r.n + d
	return r.n
}

func (r Rec) total() uint64 {
	return r.n + uint64(r.w) + uint64(r.tag)
}

func mkstr(a uint64) string {
	if a%2 == 0 {
		return "even"
	}
	return "odd!!"
}

func mkslice(a uint64) []uint64 {
	s := make([]uint64, 3)
	s[0] = a
	s[1] = a + 1
	s[2] = a * 2
	return s
}

func mkbytes(a uint64) []byte {
	s := make([]byte, 4)
	s[0] = uint8(a)
	s[1] = uint8(a >> 1)
	s[3] = 7
	return s
}

func mkrec(a uint64) *Rec {
	return &Rec{n: a, w: uint32(a) + 1, tag: 5, xs: mkslice(a)}
}

func mkmap(a uint64) map[uint64]uint64 {
	m := make(map[uint64]uint64)
	m[1] = a
	m[a] = 2
	return m
}

type Wrap struct {
	k uint64
	r Rec
	p *Rec
	s []uint64
}

func mkrecs(a uint64) []Rec {
	s := make([]Rec, 3)
	s[0] = Rec{n: a, w: 1, tag: 2}
	s[1] = Rec{n: a + 1, w: 10, tag: 20}
	s[2] = Rec{n: a * 2}
	return s
}

func mkptrs(a uint64) []*Rec {
	s := make([]*Rec, 2)
	s[0] = mkrec(a)
	s[1] = mkrec(a + 7)
	return s
}

func mkwrap(a uint64) *Wrap {
	return &Wrap{k: a, r: Rec{n: a + 1, w: 3, tag: 4}, p: mkrec(a + 2), s: mkslice(a)}
}

func mkmstr(a uint64) map[string]uint64 {
	m := make(map[string]uint64)
	m["one"] = a
	m[mkstr(a)] = 2
	return m
}

func mkpu64(a uint64) *uint64 {
	p := new(uint64)
	*p = a + 3
	return p
}

func mkpu8(a uint64) *byte {
	p := new(byte)
	*p = byte(a) + 250
	return p
}

func mkfn(a uint64) func(uint64) uint64 {
	return func(x uint64) uint64 {
		return x*2 + a
	}
}

func mkstrs(a uint64) []string {
	s := make([]string, 2)
	s[0] = mkstr(a)
	s[1] = "z"
	return s
}

func mkmsl(a uint64) map[uint64][]byte {
	m := make(map[uint64][]byte)
	m[1] = mkbytes(a)
	return m
}

`

func places(t cellType) []place {
	T := t.goT
	tag := t.id
	out := []place{
		{id: "define", setup: "x := " + t.init, expr: "x"},
		{id: "var", setup: "var x " + T + " = " + t.init, expr: "x", lvalue: true},
		{id: "varzero", setup: "var x " + T + "\n\tx = " + t.init, expr: "x", lvalue: true},
		{id: "param", setup: "", expr: "p0"},
		{id: "fieldptr", setup: "h := &Hold_" + tag + "{f: " + t.init + "}", expr: "h.f", lvalue: true,
			decls: "type Hold_" + tag + " struct {\n\tpre uint64\n\tf   " + T + "\n\tpost uint64\n}\n\n"},
		{id: "fieldvar", setup: "var h Hold_" + tag + "\n\th.f = " + t.init, expr: "h.f", lvalue: true},
		{id: "fieldval", setup: "h := Hold_" + tag + "{f: " + t.init + "}", expr: "h.f"},
		{id: "deref", setup: "q := new(" + T + ")\n\t*q = " + t.init, expr: "(*q)", lvalue: true},
		{id: "ptrptr", setup: "q := new(" + T + ")\n\t*q = " + t.init + "\n\tqq := new(*" + T + ")\n\t*qq = q", expr: "(**qq)", lvalue: true},
		{id: "elem", setup: "sl := make([]" + T + ", 3)\n\tsl[1] = " + t.init, expr: "sl[1]", lvalue: true},
		{id: "mapelem", setup: "mm := make(map[uint64]" + T + ")\n\tmm[7] = " + t.init, expr: "mm[7]", lvalue: true},
		{id: "call", setup: "", expr: "get_" + tag + "(a)",
			decls: "func get_" + tag + "(a uint64) " + T + " {\n\treturn " + t.init + "\n}\n\n"},
		{id: "nested", setup: "o := &Outer_" + tag + "{in: &Hold_" + tag + "{f: " + t.init + "}}", expr: "o.in.f", lvalue: true,
			decls: "type Outer_" + tag + " struct {\n\tk  uint64\n\tin *Hold_" + tag + "\n}\n\n"},
		{id: "closurevar", setup: "var x " + T + " = " + t.init + "\n\tget := func() " + T + " {\n\t\treturn x\n\t}", expr: "get()"},
	}
	if c, ok := constInit[t.id]; ok {
		out = append(out,
			place{id: "const", setup: "", expr: "K_" + tag, decls: "const K_" + tag + " " + T + " = " + c + "\n\n"},
			place{id: "untypedconst", setup: "", expr: "U_" + tag, decls: "const U_" + tag + " = " + c + "\n\n"},
			place{id: "global", setup: "", expr: "G_" + tag, decls: "var G_" + tag + " " + T + " = " + c + "\n\n"})
	}
	return out
}

var constInit = map[string]string{"u64": "200", "u32": "100", "u8": "7", "bool": "true", "str": "\"konst\""}

type operation struct {
	id   string
	on   []string // cell type ids it applies to
	ret  string   // Go result type(s)
	body string   // statements; %E = place expression, %W = another value of the same type (init2); must end in return
	// write: the operation assigns to the place (needs an l-value)
	write bool
}

var operations = []operation{
	// integers
	{id: "arith", on: []string{"u64", "u32", "u8"}, ret: "%T", body: "return (%E + %W) * 3 - (%E ^ %W)"},
	{id: "bits", on: []string{"u64", "u32", "u8"}, ret: "%T", body: "return (%E & %W) | (%E >> 1) | (^%E << 2)"},
	{id: "divmod", on: []string{"u64", "u32", "u8"}, ret: "%T", body: "return %E/(%W|1) + %E%(%W|1)"},
	{id: "cmp", on: []string{"u64", "u32", "u8"}, ret: "(bool, bool, bool)", body: "return %E < %W, %E == %W, %E >= %W"},
	{id: "conv", on: []string{"u64", "u32", "u8"}, ret: "(uint64, uint32, byte)", body: "return uint64(%E) + 1, uint32(%E) + 1, uint8(%E) + 1"},
	{id: "index", on: []string{"u64"}, ret: "uint64", body: "s := mkslice(9)\n\treturn s[%E%3]"},
	{id: "assign", on: []string{"u64", "u32", "u8", "bool", "str"}, ret: "%T", body: "%E = %W\n\treturn %E", write: true},
	{id: "opassign", on: []string{"u64", "u32", "u8"}, ret: "%T", body: "%E += %W\n\t%E ^= 5\n\t%E -= 1\n\treturn %E", write: true},
	{id: "passarg", on: []string{"u64", "u32", "u8", "bool", "str", "su64", "sb", "ptr", "rec", "map", "srec", "sptr", "wrap", "mstr", "pu64", "pu8", "fn", "sstr", "msl"}, ret: "uint64", body: "return use_%t(%E)"},
	// bool
	{id: "logic", on: []string{"bool"}, ret: "(bool, bool, uint64)", body: "var r uint64 = 0\n\tif %E && !%W {\n\t\tr = 1\n\t} else if %E || %W {\n\t\tr = 2\n\t}\n\treturn !%E, %E == %W, r"},
	// strings
	{id: "strops", on: []string{"str"}, ret: "(string, uint64, bool)", body: "return %E + \"-\" + %W, uint64(len(%E)), %E == %W"},
	{id: "strbytes", on: []string{"str"}, ret: "([]byte, uint64)", body: "b := []byte(%E)\n\treturn b, uint64(len(b))"},
	// slices
	{id: "lencap", on: []string{"su64", "sb"}, ret: "(uint64, uint64)", body: "return uint64(len(%E)), uint64(cap(%E))"},
	{id: "getset", on: []string{"su64"}, ret: "(uint64, uint64)", body: "%E[1] = %E[0] + 40\n\treturn %E[1], %E[2]"},
	{id: "getsetb", on: []string{"sb"}, ret: "(byte, byte)", body: "%E[1] = %E[0] + 40\n\treturn %E[1], %E[3]"},
	{id: "range", on: []string{"su64"}, ret: "(uint64, uint64)", body: "var sum uint64 = 0\n\tvar cnt uint64 = 0\n\tfor i, v := range %E {\n\t\tsum += v + uint64(i)\n\t\tcnt += 1\n\t}\n\treturn sum, cnt"},
	{id: "rangeval", on: []string{"su64", "sb"}, ret: "uint64", body: "var sum uint64 = 0\n\tfor _, v := range %E {\n\t\tsum = sum*3 + uint64(v)\n\t}\n\treturn sum"},
	{id: "rangekey", on: []string{"su64", "sb"}, ret: "uint64", body: "var cnt uint64 = 0\n\tfor i := range %E {\n\t\tcnt += uint64(i) + 1\n\t}\n\treturn cnt"},
	{id: "subslice", on: []string{"su64"}, ret: "([]uint64, []uint64, []uint64)", body: "return %E[1:3], %E[1:], %E[:2]"},
	{id: "append", on: []string{"su64"}, ret: "[]uint64", body: "t := append(%E, 77)\n\treturn append(t, %W...)"},
	{id: "appendassign", on: []string{"su64"}, ret: "[]uint64", body: "%E = append(%E, 5)\n\t%E = append(%E, 6)\n\treturn %E", write: true},
	{id: "copy", on: []string{"sb"}, ret: "(uint64, []byte)", body: "d := make([]byte, 3)\n\tn := copy(d, %E)\n\tm := copy(%E, %W[2:])\n\treturn uint64(n) + uint64(m)*10, d"},
	{id: "elemptr", on: []string{"su64"}, ret: "(uint64, uint64)", body: "e := &%E[1]\n\t*e = *e + 100\n\treturn %E[1], *e"},
	{id: "tostring", on: []string{"sb"}, ret: "string", body: "return string(%E)"},
	{id: "nilcmp", on: []string{"su64", "sb", "ptr", "pu64", "wrap"}, ret: "(bool, bool)", body: "return %E == nil, %E != nil"},
	{id: "encode", on: []string{"sb"}, ret: "(uint32, []byte)", body: "machine.UInt32Put(%E, 0xA1B2C3D4)\n\treturn machine.UInt32Get(%E), %E"},
	// pointers to structs
	{id: "fieldrw", on: []string{"ptr"}, ret: "(uint64, uint32, byte)", body: "%E.n = %E.n + 10\n\t%E.w += 2\n\t%E.tag = %E.tag ^ 1\n\treturn %E.n, %E.w, %E.tag"},
	{id: "method", on: []string{"ptr"}, ret: "(uint64, uint64)", body: "r := %E.bump(3)\n\treturn r, %E.n"},
	{id: "derefcopy", on: []string{"ptr"}, ret: "(uint64, uint64)", body: "c := *%E\n\t%E.n = 1000\n\treturn c.n, %E.n"},
	{id: "storestruct", on: []string{"ptr"}, ret: "(uint64, uint32)", body: "*%E = Rec{n: 8, w: 9}\n\treturn %E.n, %E.w"},
	{id: "fieldslice", on: []string{"ptr"}, ret: "(uint64, uint64)", body: "%E.xs = append(%E.xs, 4)\n\tvar sum uint64 = 0\n\tfor _, v := range %E.xs {\n\t\tsum += v\n\t}\n\treturn sum, uint64(len(%E.xs))"},
	{id: "fieldaddr", on: []string{"ptr"}, ret: "uint64", body: "f := &%E.n\n\t*f = *f + 6\n\treturn %E.n"},
	{id: "ptrassign", on: []string{"ptr"}, ret: "(uint64, uint64)", body: "old := %E\n\t%E = %W\n\treturn old.n, %E.n", write: true},
	// struct values
	{id: "valfields", on: []string{"rec"}, ret: "(uint64, uint32, byte)", body: "return %E.n + 1, %E.w + 1, %E.tag + 1"},
	{id: "valmethod", on: []string{"rec"}, ret: "uint64", body: "return %E.total()"},
	{id: "valcopy", on: []string{"rec"}, ret: "(uint64, uint64)", body: "var c Rec = %E\n\tc.n = c.n + 50\n\treturn c.n, %E.n"},
	{id: "valassign", on: []string{"rec"}, ret: "(uint64, byte)", body: "%E = %W\n\treturn %E.n, %E.tag", write: true},
	{id: "valfieldset", on: []string{"rec"}, ret: "(uint64, uint32)", body: "%E.n = 77\n\t%E.w += 1\n\treturn %E.n, %E.w", write: true},
	// maps
	{id: "mapget", on: []string{"map"}, ret: "(uint64, uint64, bool, bool)", body: "v, ok := %E[1]\n\t_, ok2 := %E[999]\n\treturn v, %E[999], ok, ok2"},
	{id: "mapset", on: []string{"map"}, ret: "(uint64, uint64)", body: "%E[5] = 50\n\t%E[1] += 1\n\tdelete(%E, 999)\n\tdelete(%E, 5)\n\treturn %E[1], uint64(len(%E))"},
	{id: "maprange", on: []string{"map"}, ret: "(uint64, uint64)", body: "var ks uint64 = 0\n\tvar vs uint64 = 0\n\tfor k, v := range %E {\n\t\tks += k\n\t\tvs += v\n\t}\n\treturn ks, vs"},
	// slices of structs / pointers / strings
	{id: "recs_read", on: []string{"srec"}, ret: "(uint64, uint32, byte, uint64)", body: "return %E[1].n, %E[1].w, %E[0].tag, uint64(len(%E))"},
	{id: "recs_store", on: []string{"srec"}, ret: "(uint64, uint64)", body: "%E[2] = Rec{n: 5, w: 6}\n\tc := %E[2]\n\treturn c.n + uint64(c.w), %E[0].n"},
	{id: "recs_range", on: []string{"srec"}, ret: "uint64", body: "var t uint64 = 0\n\tfor i, e := range %E {\n\t\tt += e.n*uint64(i+1) + uint64(e.w) + uint64(e.tag)\n\t}\n\treturn t"},
	{id: "recs_append", on: []string{"srec"}, ret: "(uint64, uint64)", body: "t := append(%E, Rec{n: 99})\n\treturn uint64(len(t)), t[3].n + t[1].n"},
	{id: "recs_elemptr", on: []string{"srec"}, ret: "(uint64, uint64)", body: "e := &%E[1]\n\te.n = e.n + 100\n\treturn %E[1].n, e.bump(1)"},
	{id: "ptrs_ops", on: []string{"sptr"}, ret: "(uint64, uint64, uint64)", body: "%E[0].n += 5\n\tr := %E[1].bump(2)\n\tvar t uint64 = 0\n\tfor _, e := range %E {\n\t\tt += e.n\n\t}\n\treturn %E[0].n, r, t"},
	{id: "strs_ops", on: []string{"sstr"}, ret: "(string, uint64)", body: "var t string = \"\"\n\tfor _, e := range %E {\n\t\tt = t + e\n\t}\n\treturn t + %E[1], uint64(len(%E[0]))"},
	// nested structs
	{id: "wrap_read", on: []string{"wrap"}, ret: "(uint64, uint64, uint32, uint64)", body: "return %E.k, %E.r.n, %E.r.w, %E.p.n + %E.s[1]"},
	{id: "wrap_write", on: []string{"wrap"}, ret: "(uint64, uint64, uint64)", body: "%E.k += 1\n\t%E.p.n = %E.p.n * 3\n\t%E.r = Rec{n: 42}\n\t%E.s = append(%E.s, 8)\n\treturn %E.k + %E.p.n, %E.r.n, uint64(len(%E.s))"},
	{id: "wrap_copyinner", on: []string{"wrap"}, ret: "(uint64, uint64)", body: "var c Rec = %E.r\n\tc.n = 1\n\tq2 := %E.p\n\tq2.n = 2\n\treturn %E.r.n + c.n, %E.p.n"},
	// string-keyed maps, maps of slices
	{id: "mstr_ops", on: []string{"mstr"}, ret: "(uint64, bool, uint64, uint64)", body: "%E[\"k\"] = 5\n\t%E[\"one\"] += 1\n\tv, ok := %E[\"zz\"]\n\tdelete(%E, \"k\")\n\tvar t uint64 = 0\n\tfor k, x := range %E {\n\t\tt += x + uint64(len(k))\n\t}\n\treturn v + %E[\"one\"], ok, uint64(len(%E)), t"},
	{id: "msl_ops", on: []string{"msl"}, ret: "(uint64, byte, uint64)", body: "%E[2] = append(%E[1], 9)\n\tb := %E[1]\n\tb[0] = 77\n\treturn uint64(len(%E[2])), %E[1][0], uint64(len(%E[5]))"},
	// pointers to scalars
	{id: "pu64_ops", on: []string{"pu64"}, ret: "(uint64, bool)", body: "*%E = *%E + 4\n\t*%E ^= 1\n\talias := %E\n\t*alias = *alias * 2\n\treturn *%E, %E == alias"},
	{id: "pu8_ops", on: []string{"pu8"}, ret: "(byte, uint64)", body: "*%E = *%E + 10\n\t*%E -= 3\n\treturn *%E, uint64(*%E) + 1"},
	// function values
	{id: "fn_call", on: []string{"fn"}, ret: "(uint64, uint64)", body: "g := %E\n\treturn %E(3), g(g(1))"},
	{id: "maprangekey", on: []string{"map"}, ret: "uint64", body: "var ks uint64 = 0\n\tfor k := range %E {\n\t\tks += k * 3\n\t}\n\treturn ks"},
}

func useFuncs() string {
	var b strings.Builder
	for _, t := range cellTypes {
		var body string
		switch t.id {
		case "u64":
			body = "return v + 1"
		case "u32", "u8":
			body = "return uint64(v) + 1"
		case "bool":
			body = "if v {\n\t\treturn 1\n\t}\n\treturn 0"
		case "str":
			body = "return uint64(len(v))"
		case "su64":
			body = "return uint64(len(v)) + v[0]"
		case "sb":
			body = "return uint64(len(v)) + uint64(v[0])"
		case "ptr":
			body = "v.n = v.n + 1\n\treturn v.n"
		case "rec":
			body = "return v.n + uint64(v.w)"
		case "map":
			body = "return uint64(len(v)) + v[1]"
		case "srec":
			body = "return uint64(len(v)) + v[0].n"
		case "sptr":
			body = "return uint64(len(v)) + v[0].n"
		case "wrap":
			body = "return v.k + v.r.n"
		case "mstr":
			body = "return uint64(len(v)) + v[\"one\"]"
		case "pu64":
			body = "return *v + 1"
		case "pu8":
			body = "return uint64(*v) + 1"
		case "fn":
			body = "return v(4)"
		case "sstr":
			body = "return uint64(len(v)) + uint64(len(v[0]))"
		case "msl":
			body = "return uint64(len(v)) + uint64(len(v[1]))"
		}
		fmt.Fprintf(&b, "func use_%s(v %s) uint64 {\n\t%s\n}\n\n", t.id, t.goT, body)
	}
	return b.String()
}

// MatrixPackages returns one package per cell type; every function is one (place, operation) cell.
func MatrixPackages() []*Package {
	var out []*Package
	for _, t := range cellTypes {
		var b strings.Builder
		name := "mx_" + t.id
		fmt.Fprintf(&b, "package %s\n\nimport \"github.com/goose-lang/goose/machine\"\n\nfunc keepMachine(b []byte) uint64 {\n\treturn machine.UInt64Get(b)\n}\n\n", name)
		b.WriteString(matrixPrelude)
		b.WriteString(useFuncs())
		pls := places(t)
		seenDecl := map[string]bool{}
		for _, p := range pls {
			if p.decls != "" && !seenDecl[p.decls] {
				seenDecl[p.decls] = true
				b.WriteString(p.decls)
			}
		}
		var cases []string
		for _, op := range operations {
			applies := false
			for _, o := range op.on {
				if o == t.id {
					applies = true
				}
			}
			if !applies {
				continue
			}
			for _, p := range pls {
				if op.write && !p.lvalue {
					continue
				}
				fn := fmt.Sprintf("cell_%s_%s", p.id, op.id)
				ret := strings.ReplaceAll(op.ret, "%T", t.goT)
				// an assignment statement's left side is written without the parentheses the place carries for
				// use inside expressions: goose rejects `(*q) = v` ("assigning to complex expression") although
				// `*q = v` is supported, which hid every assignment through a pointer
				lv := p.expr
				if strings.HasPrefix(lv, "(*") && strings.HasSuffix(lv, ")") {
					lv = lv[1 : len(lv)-1]
				}
				body := op.body
				for _, asg := range []string{" = ", " += ", " ^= ", " -= "} {
					body = strings.ReplaceAll("\n\t"+body, "\n\t%E"+asg, "\n\t"+lv+asg)[2:]
				}
				body = strings.ReplaceAll(body, "%E", p.expr)
				body = strings.ReplaceAll(body, "%W", t.init2)
				body = strings.ReplaceAll(body, "%t", t.id)
				params := "a uint64"
				if p.id == "param" {
					params = "a uint64, p0 " + t.goT
				}
				fmt.Fprintf(&b, "func %s(%s) %s {\n", fn, params, ret)
				if p.setup != "" {
					b.WriteString("\t" + p.setup + "\n")
				}
				b.WriteString("\t" + body + "\n}\n\n")
				for i, a := range []uint64{0, 5, 255, 4294967295, 9223372036854775808, 18446744073709551615} {
					cn := fmt.Sprintf("case_%s_%s_%d", p.id, op.id, i)
					call := fmt.Sprintf("%s(%d)", fn, a)
					if p.id == "param" {
						call = fmt.Sprintf("%s(%d, %s)", fn, a, wordA.ReplaceAllString(t.init, fmt.Sprintf("uint64(%d)", a)))
					}
					fmt.Fprintf(&b, "func %s() %s {\n\treturn %s\n}\n\n", cn, ret, call)
					cases = append(cases, cn)
				}
			}
		}
		out = append(out, &Package{Name: name, Source: b.String(), Cases: cases, Features: map[string]int{"matrix-" + t.id: len(cases)}})
	}
	return out
}
