package gen

import (
	"fmt"
	"strings"
)

// outside.go: the catalogue of out-of-subset and look-alike constructs (C02).
// Every atom is type-correct Go. Statement atoms are inserted into a host
// function at several positions; the host makes the atom's effect observable
// in its result, so that a construct that is accepted but given the meaning
// of a supported look-alike (or silently dropped) changes the result.

type OutsideAtom struct {
	ID   string
	Kind string // stmt | decl
	Code string // stmt: statements using the host's variables; decl: top-level declarations defining func <ID>_fn(a uint64) uint64
	Site string // guard site(s) in goose this atom is aimed at (documentation)
	// NoLoop: not placed inside a loop body (it would not compile or not terminate there)
	NoLoop bool
	// Light: a reduced set of host positions and arguments (quick tier of the generated families,
	// where the family's own dimension matters more than the position)
	Light bool
	// Imports: further import paths the atom's code uses (standard library)
	Imports []string
	// Positions: when set, the only host positions used (families whose dimension is independent of the position)
	Positions []string
}

var lightPositions = map[string]bool{"first": true, "inloop": true, "inclosure": true, "aftereturnif": true, "elseifarm": true}

// host variables: x (var uint64), y (uint64, :=), s ([]uint64 len 4), p (*H{f uint64; g uint32; b byte}),
// m (map[uint64]uint64), str (string), bs ([]byte len 3), w (var uint32), z (var byte), q (*uint64)
var OutsideAtoms = []OutsideAtom{
	{ID: "mulassign", Kind: "stmt", Code: "x *= 3", Site: "goose.go assignStmt: %v assignment"},
	{ID: "quoassign", Kind: "stmt", Code: "x /= 3", Site: "assignStmt"},
	{ID: "remassign", Kind: "stmt", Code: "x %= 3", Site: "assignStmt"},
	{ID: "shlassign", Kind: "stmt", Code: "x <<= 2", Site: "assignStmt"},
	{ID: "shrassign", Kind: "stmt", Code: "x >>= 1", Site: "assignStmt"},
	{ID: "andnotassign", Kind: "stmt", Code: "x &^= 5", Site: "assignStmt"},
	{ID: "mulassign_field", Kind: "stmt", Code: "p.f *= 3", Site: "assignStmt"},
	{ID: "mulassign_u32", Kind: "stmt", Code: "w *= 3\n\tx += uint64(w)", Site: "assignStmt"},
	{ID: "ifinit", Kind: "stmt", Code: "if t := x + 1; t > 3 {\n\t\tx = t * 2\n\t}", Site: "ifStmt: if statement initializations"},
	{ID: "slicelit3", Kind: "stmt", Code: "s2 := []uint64{1, 2, 3}\n\tx += s2[2] + uint64(len(s2))", Site: "compositeLiteral: slice literal with multiple elements"},
	{ID: "incfield", Kind: "stmt", Code: "p.f++", Site: "incDecStmt: cannot inc/dec non-var"},
	{ID: "incelem", Kind: "stmt", Code: "s[1]++", Site: "incDecStmt"},
	{ID: "incmap", Kind: "stmt", Code: "m[1]++", Site: "incDecStmt"},
	{ID: "incderef", Kind: "stmt", Code: "(*q)++", Site: "incDecStmt"},
	{ID: "incdefine", Kind: "stmt", Code: "y2 := y\n\ty2++\n\tx += y2", Site: "incDecStmt: can only inc/dec pointer-wrapped variables"},
	{ID: "earlyreturn_else", Kind: "stmt", Code: "if x > 5 {\n\t\treturn x\n\t} else {\n\t\tx = 1\n\t}\n\tx += 2", Site: "ifStmt: early return in if with an else branch", NoLoop: true},
	{ID: "slice3index", Kind: "stmt", Code: "t := s[1:2:3]\n\tx += uint64(cap(t)) + uint64(len(t))", Site: "sliceExpr: 3-index slice"},
	{ID: "fullslice", Kind: "stmt", Code: "t := s[:]\n\tt[0] = 9\n\tx += t[0]", Site: "sliceExpr: complete slice"},
	{ID: "switchstmt", Kind: "stmt", Code: "switch x {\n\tcase 1:\n\t\tx = 50\n\tdefault:\n\t\tx = x + 60\n\t}", Site: "stmtInBlock: switch"},
	{ID: "typeswitch", Kind: "stmt", Code: "var iface interface{} = x\n\tswitch v := iface.(type) {\n\tcase uint64:\n\t\tx = v + 70\n\tdefault:\n\t\tx = 1\n\t}", Site: "stmtInBlock: type switch"},
	{ID: "deferstmt", Kind: "stmt", Code: "defer func() {\n\t\tp.f = 99\n\t}()", Site: "stmtInBlock default", NoLoop: true},
	{ID: "forinit2", Kind: "stmt", Code: "for i, j := uint64(0), uint64(1); i < 3; i++ {\n\t\tx += j\n\t}", Site: "loopVar: loop initialization must be a single assignment"},
	{ID: "forpost2", Kind: "stmt", Code: "for i := uint64(0); i < 3; i, x = i+1, x+1 {\n\t}", Site: "forStmt post / multipleAssignStmt"},
	{ID: "forinitassign", Kind: "stmt", Code: "var k uint64\n\tfor k = 1; k < 3; k++ {\n\t\tx += k\n\t}", Site: "loopVar"},
	{ID: "multidefine", Kind: "stmt", Code: "a1, b1 := x, y\n\tx = a1 + b1 + 1", Site: "defineStmt: multiple defines"},
	{ID: "varmulti", Kind: "stmt", Code: "var c1, c2 uint64 = 1, 2\n\tx += c1 + c2*10", Site: "varSpec: multiple declarations in one block"},
	{ID: "vargroup", Kind: "stmt", Code: "var (\n\t\td1 uint64 = 1\n\t\td2 uint64 = 20\n\t)\n\tx += d1 + d2", Site: "varDeclStmt: multiple declarations in one var statement"},
	{ID: "constlocal", Kind: "stmt", Code: "const lc uint64 = 5\n\tx += lc", Site: "varDeclStmt: non-var declaration"},
	{ID: "typelocal", Kind: "stmt", Code: "type lt uint64\n\tvar lv lt = 4\n\tx += uint64(lv)", Site: "varDeclStmt: non-var declaration"},
	{ID: "gowithargs", Kind: "stmt", Code: "go sideEffect(q, x)", Site: "goStmt: go statement with parameters"},
	{ID: "gowithargs_observable", Kind: "stmt", Code: "gw := new(sync.WaitGroup)\n\tgw.Add(1)\n\tgo addIntoDone(gw, q, x)\n\tx = x + 100\n\tgw.Wait()", Site: "goStmt: arguments are evaluated by the spawner", NoLoop: true},
	{ID: "gomethod_observable", Kind: "stmt", Code: "gw := new(sync.WaitGroup)\n\tgw.Add(1)\n\tgh := &H{f: 1}\n\tgo gh.addDone(gw, q, x)\n\tx = x + 100\n\tgw.Wait()", Site: "goStmt: method call spawn", NoLoop: true},
	{ID: "gofunclit_ok", Kind: "stmt", Code: "gw := new(sync.WaitGroup)\n\tgw.Add(1)\n\txc := x\n\tgo func() {\n\t\t*q = *q + xc\n\t\tgw.Done()\n\t}()\n\tx = x + 100\n\tgw.Wait()", Site: "supported spawn form", NoLoop: true},
	{ID: "gonamed", Kind: "stmt", Code: "go sideEffect0()", Site: "spawnExpr: only function literal spawns"},
	{ID: "labeled", Kind: "stmt", Code: "outer:\n\tfor {\n\t\tx++\n\t\tif x > 3 {\n\t\t\tbreak outer\n\t\t}\n\t}", Site: "stmtInBlock default (labeled)"},
	{ID: "labeled_continue_outer", Kind: "stmt", Code: "outer:\n\tfor i := uint64(0); i < 3; i++ {\n\t\tfor j := uint64(0); j < 3; j++ {\n\t\t\tif j == i {\n\t\t\t\tcontinue outer\n\t\t\t}\n\t\t\tx += 1\n\t\t}\n\t\tx += 100\n\t}", Site: "labeled loop; continue naming an outer loop", NoLoop: true},
	{ID: "labeled_break_outer", Kind: "stmt", Code: "outer:\n\tfor i := uint64(0); i < 3; i++ {\n\t\tfor j := uint64(0); j < 3; j++ {\n\t\t\tif i+j == 3 {\n\t\t\t\tbreak outer\n\t\t\t}\n\t\t\tx += 1\n\t\t}\n\t\tx += 100\n\t}", Site: "labeled loop; break naming an outer loop", NoLoop: true},
	{ID: "labeled_range_continue_outer", Kind: "stmt", Code: "rows:\n\tfor _, v := range s {\n\t\tfor _, u := range s {\n\t\t\tif u == 5 {\n\t\t\t\tcontinue rows\n\t\t\t}\n\t\t\tx += u + v\n\t\t}\n\t\tx += 1000\n\t}", Site: "labeled range loop; continue naming the outer loop", NoLoop: true},
	{ID: "labeled_own_loop_only", Kind: "stmt", Code: "own:\n\tfor i := uint64(0); i < 4; i++ {\n\t\tif i == 2 {\n\t\t\tcontinue own\n\t\t}\n\t\tx += i\n\t}", Site: "labeled loop; branch naming its own loop", NoLoop: true},
	{ID: "continue_nested_two_levels", Kind: "stmt", Code: "for i := uint64(0); i < 5; i++ {\n\t\tif i > 1 {\n\t\t\tif i == 3 {\n\t\t\t\tcontinue\n\t\t\t}\n\t\t\tx += 10\n\t\t}\n\t\tx += 100\n\t}", Site: "continue inside an if nested in a mid-block if", NoLoop: true},
	{ID: "continue_in_else_mid_block", Kind: "stmt", Code: "for i := uint64(0); i < 4; i++ {\n\t\tif i == 0 {\n\t\t\tx += 1\n\t\t} else {\n\t\t\tcontinue\n\t\t}\n\t\tx += 100\n\t}", Site: "continue in the else branch of a mid-block if", NoLoop: true},
	{ID: "continue_nested_in_range", Kind: "stmt", Code: "for _, v := range s {\n\t\tif v > 1 {\n\t\t\tif v == 5 {\n\t\t\t\tcontinue\n\t\t\t}\n\t\t\tx += v\n\t\t}\n\t\tx += 1\n\t}", Site: "continue nested two levels deep in a range body", NoLoop: true},
	{ID: "break_nested_two_levels", Kind: "stmt", Code: "for i := uint64(0); i < 5; i++ {\n\t\tif i > 1 {\n\t\t\tif i == 3 {\n\t\t\t\tbreak\n\t\t\t}\n\t\t\tx += 10\n\t\t}\n\t\tx += 100\n\t}", Site: "break inside an if nested in a mid-block if", NoLoop: true},
	{ID: "break_in_else_mid_block", Kind: "stmt", Code: "for i := uint64(0); i < 4; i++ {\n\t\tif i < 2 {\n\t\t\tx += 1\n\t\t} else {\n\t\t\tbreak\n\t\t}\n\t\tx += 100\n\t}", Site: "break in the else branch of a mid-block if", NoLoop: true},
	{ID: "return_nested_two_levels_then_code", Kind: "stmt", Code: "if x > 2 {\n\t\tif x > 6 {\n\t\t\treturn x * 2\n\t\t}\n\t}\n\tx += 2", Site: "else-less if whose last statement is an else-less if ending in return, followed by code", NoLoop: true},
	{ID: "return_nested_in_loop_body", Kind: "stmt", Code: "for i := uint64(0); i < 4; i++ {\n\t\tif i > 0 {\n\t\t\tif x > 200 {\n\t\t\t\treturn x\n\t\t\t}\n\t\t}\n\t\tx += 100\n\t}", Site: "return nested two levels deep in a loop body", NoLoop: true},
	{ID: "gotostmt", Kind: "stmt", Code: "if x > 100 {\n\t\tgoto done\n\t}\n\tx += 5\ndone:\n\tx += 1", Site: "branchStmt / labeled", NoLoop: true},
	{ID: "arrayvar", Kind: "stmt", Code: "var arr [3]uint64\n\tarr[1] = x\n\tx = arr[1] + arr[0] + uint64(len(arr))", Site: "arrays"},
	{ID: "caparray", Kind: "stmt", Code: "var arr2 [4]uint64\n\tx += uint64(cap(arr2)) + uint64(len(arr2))", Site: "capExpr / lenExpr of an array"},
	{ID: "hugeliteral", Kind: "stmt", Code: "x += (18446744073709551616 - 1) & 7", Site: "basicLiteral: int literals must be positive numbers (out of uint64 range)"},
	{ID: "untypedconv", Kind: "stmt", Code: "const uc = 5\n\tx += uint64(uc) + uint64(len(\"abc\"))", Site: "integerConversion: conversion from untyped int"},
	{ID: "mapconv", Kind: "stmt", Code: "m3 := map[uint64]uint64(MapU(m))\n\tx += m3[1]", Site: "exprSpecial: MapType as expression"},
	{ID: "sliceconv", Kind: "stmt", Code: "s4 := Bytes(bs)\n\ts5 := []byte(s4)\n\tx += uint64(len(s5))", Site: "conversion between slice types"},
	{ID: "ptrconv", Kind: "stmt", Code: "ph := (*H)(p)\n\tx += ph.f", Site: "conversion to a pointer type"},
	{ID: "timenow", Kind: "stmt", Code: "t0 := machine.TimeNow()\n\tif t0 == t0 {\n\t\tx += 1\n\t}\n\tmachine.Sleep(1)", Site: "packageMethod TimeNow / Sleep"},
	{ID: "int64type", Kind: "stmt", Code: "var sg int64 = int64(x)\n\tsg = sg - 10\n\tif sg < 0 {\n\t\tx = 1000\n\t}", Site: "coqTypeOfType: basic type"},
	{ID: "inttype", Kind: "stmt", Code: "n := len(s)\n\tif n-5 < 0 {\n\t\tx = 2000\n\t}", Site: "signed arithmetic from len"},
	{ID: "floatlit", Kind: "stmt", Code: "fl := 1.5\n\tx += uint64(fl * 2)", Site: "basicLiteral: literal with kind"},
	{ID: "runelit", Kind: "stmt", Code: "c := 'a'\n\tx += uint64(c)", Site: "basicLiteral"},
	{ID: "andnot", Kind: "stmt", Code: "x = x &^ 3", Site: "binExpr: binary operator"},
	{ID: "unaryminus", Kind: "stmt", Code: "x = -x", Site: "unaryExpr"},
	{ID: "unaryplus", Kind: "stmt", Code: "x = +x + 1", Site: "unaryExpr"},
	{ID: "stringslice", Kind: "stmt", Code: "str2 := str[1:]\n\tx += uint64(len(str2))", Site: "sliceExpr on string (sliceElem)"},
	{ID: "stringindex", Kind: "stmt", Code: "x += uint64(str[0])", Site: "indexExpr: index into unknown type"},
	{ID: "stringless_named", Kind: "stmt", Code: "var k1 Key = Key(str)\n\tif k1 < Key(\"b\") {\n\t\tx += 7\n\t}\n\tif k1 >= Key(\"abd\") {\n\t\tx += 11\n\t}", Site: "binExpr: ordered comparison of a named string type"},
	{ID: "stringless_field", Kind: "stmt", Code: "kh := &KeyHolder{k: Key(str)}\n\tif kh.k > Key(\"ab\") {\n\t\tx += 13\n\t}", Site: "binExpr: ordered comparison of a named string type"},
	{ID: "stringless", Kind: "stmt", Code: "if str < \"b\" {\n\t\tx += 7\n\t}", Site: "binExpr on strings"},
	{ID: "maplit", Kind: "stmt", Code: "m2 := map[uint64]uint64{1: 2}\n\tx += m2[1]", Site: "compositeLiteral: composite literal of type"},
	{ID: "unkeyedlit", Kind: "stmt", Code: "h2 := H{5, 6, 7}\n\tx += h2.f + uint64(h2.g)", Site: "structLiteral: un-keyed struct literal field"},
	{ID: "anonstruct", Kind: "stmt", Code: "anon := struct{ qq uint64 }{qq: 3}\n\tx += anon.qq", Site: "coqTypeOfType: anonymous struct"},
	{ID: "retinloop", Kind: "stmt", Code: "for x < 10 {\n\t\tx++\n\t\tif x == 5 {\n\t\t\treturn x * 100\n\t\t}\n\t}", Site: "stmtInBlock: return in unsupported position", NoLoop: true},
	{ID: "breakelse", Kind: "stmt", Code: "for {\n\t\tif x > 3 {\n\t\t\tx = x + 1\n\t\t\tbreak\n\t\t} else {\n\t\t\tx++\n\t\t}\n\t\tx += 2\n\t}", Site: "ifStmt: early return in if with an else branch"},
	{ID: "iife", Kind: "stmt", Code: "func() {\n\t\tp.f = p.f + 3\n\t}()", Site: "methodExpr: call to unexpected function"},
	{ID: "minbuiltin", Kind: "stmt", Code: "x = min(x, 3)", Site: "identExpr: special identifier"},
	{ID: "chan", Kind: "stmt", Code: "ch := make(chan uint64, 1)\n\tch <- x + 1\n\tx = <-ch", Site: "makeExpr / send statement"},
	{ID: "typeassert", Kind: "stmt", Code: "var iface interface{} = x\n\tx = iface.(uint64) + 1", Site: "exprSpecial TypeAssertExpr"},
	{ID: "swap", Kind: "stmt", Code: "var x2 uint64 = 3\n\tx, x2 = x2, x\n\tx += x2 * 10", Site: "multipleAssignStmt: multiple assignments on right hand side"},
	{ID: "shadowlen", Kind: "stmt", Code: "len := func(v []uint64) uint64 {\n\t\treturn 77\n\t}\n\tx += len(s)", Site: "callExpr: builtin recognised by spelling"},
	{ID: "shadowuint64", Kind: "stmt", Code: "uint32 := func(v uint64) uint64 {\n\t\treturn v + 1000\n\t}\n\tx = uint32(x)", Site: "callExpr: builtin recognised by spelling"},
	{ID: "assigndefine", Kind: "stmt", Code: "y = y + 1\n\tx += y", Site: "assignFromTo: variable is not assignable"},
	{ID: "assignparam", Kind: "stmt", Code: "a = a + 5\n\tx += a", Site: "assignFromTo: variable is not assignable"},
	{ID: "fieldofelem", Kind: "stmt", Code: "hs := make([]H, 2)\n\ths[1].f = 7\n\tx += hs[1].f + hs[0].f", Site: "refExpr: reference to other types of expressions"},
	{ID: "addrofelemfield", Kind: "stmt", Code: "hs := make([]H, 2)\n\tpf := &hs[1].f\n\t*pf = 8\n\tx += hs[1].f", Site: "refExpr"},
	{ID: "ptrtoparam", Kind: "stmt", Code: "pa := &y\n\t*pa = *pa + 1\n\tx += y", Site: "refExpr of a non-wrapped variable"},
	{ID: "delete_nonmap", Kind: "stmt", Code: "var mv MapU = MapU(m)\n\tdelete(mv, 1)\n\tx += uint64(len(mv)) + uint64(len(m))", Site: "callExpr: delete on non-map (named map type)"},
	{ID: "delete_named_map_define", Kind: "stmt", Code: "mv := MapU(m)\n\tdelete(mv, 1)\n\tx += uint64(len(m))", Site: "callExpr: delete on non-map (named map type)"},
	{ID: "copystring", Kind: "stmt", Code: "n2 := copy(bs, str)\n\tx += uint64(n2) + uint64(bs[0])", Site: "copyExpr"},
	{ID: "appendmulti", Kind: "stmt", Code: "var t []uint64\n\tt = append(t, 1, 2)\n\tx += uint64(len(t)) + t[1]", Site: "callExpr append with several elements"},
	{ID: "appendmulti_three_exprs", Kind: "stmt", Code: "var t []uint64\n\tt = append(t, x, y+1, s[0])\n\tx += uint64(len(t))*100 + t[1] + t[2]", Site: "callExpr append with several elements"},
	{ID: "appendmulti_bytes", Kind: "stmt", Code: "var tb []byte\n\ttb = append(tb, 1, z)\n\tx += uint64(len(tb)) + uint64(tb[1])", Site: "callExpr append with several elements"},
	{ID: "append_no_element", Kind: "stmt", Code: "var t []uint64\n\tt = append(t)\n\tx += uint64(len(t))", Site: "callExpr append without an element"},
	{ID: "append_string_spread", Kind: "stmt", Code: "var tb []byte\n\ttb = append(tb, str...)\n\tx += uint64(len(tb))", Site: "callExpr append of a string's bytes"},
	{ID: "make3map", Kind: "stmt", Code: "mm2 := make(map[uint64]uint64, 10)\n\tmm2[1] = 5\n\tx += mm2[1]", Site: "makeExpr"},
	{ID: "newarray", Kind: "stmt", Code: "pa2 := new([2]uint64)\n\tpa2[1] = 3\n\tx += pa2[1] + pa2[0]", Site: "newExpr zero_array"},
	{ID: "structeq", Kind: "stmt", Code: "h3 := H{f: 1}\n\th4 := H{f: 1}\n\tif h3 == h4 {\n\t\tx += 4\n\t}", Site: "binExpr on structs"},
	{ID: "rangeint", Kind: "stmt", Code: "for i := range 3 {\n\t\tx += uint64(i)\n\t}", Site: "rangeStmt: range over"},
	{ID: "rangestring", Kind: "stmt", Code: "for _, c := range str {\n\t\tx += uint64(c)\n\t}", Site: "rangeStmt: range over"},
	{ID: "rangenokey", Kind: "stmt", Code: "for range s {\n\t\tx++\n\t}", Site: "rangeStmt binders"},
	{ID: "rangeassign", Kind: "stmt", Code: "var ri int\n\tfor ri = range s {\n\t\tx += 1\n\t}\n\t_ = ri", Site: "rangeStmt with assignment"},
	{ID: "closure_loopvar_ok", Kind: "stmt", Code: "for i := uint64(0); i < 2; i++ {\n\t\tf := func() uint64 {\n\t\t\treturn i + 1\n\t\t}\n\t\tx += f()\n\t}", Site: "closure using the loop variable inside the iteration"},
	{ID: "earlyreturn_elseif", Kind: "stmt", Code: "if x > 5 {\n\t\treturn x\n\t} else if x == 1 {\n\t\tx = 7\n\t}\n\tx += 2", Site: "ifStmt: early return with an else-if arm", NoLoop: true},
	{ID: "earlyreturn_elseif_else", Kind: "stmt", Code: "if x > 5 {\n\t\treturn x\n\t} else if x == 1 {\n\t\tx = 7\n\t} else {\n\t\tx = 9\n\t}\n\tx += 2", Site: "ifStmt", NoLoop: true},
	{ID: "earlybreak_elseif", Kind: "stmt", Code: "for {\n\t\tif x > 3 {\n\t\t\tbreak\n\t\t} else if x == 1 {\n\t\t\tx = 7\n\t\t}\n\t\tx += 2\n\t}", Site: "ifStmt in loop"},
	{ID: "elsereturn_then_falls", Kind: "stmt", Code: "if x > 5 {\n\t\tx = 1\n\t} else {\n\t\treturn x + 100\n\t}\n\tx += 2", Site: "ifStmt: return only in else", NoLoop: true},
	{ID: "nested_return_in_plain_if", Kind: "stmt", Code: "if x > 2 {\n\t\tx += 1\n\t\tif x > 6 {\n\t\t\treturn x * 2\n\t\t}\n\t}\n\tx += 2", Site: "stmtInBlock: return in unsupported position", NoLoop: true},
	{ID: "forinit_assign_define", Kind: "stmt", Code: "i := uint64(5)\n\tfor i = 0; i < 3; i++ {\n\t\tx += i\n\t}\n\tx += i", Site: "loopVar: initialization must define"},
	{ID: "forinit_assign_param", Kind: "stmt", Code: "for a = 0; a < 3; a++ {\n\t\tx += a\n\t}\n\tx += a", Site: "loopVar"},
	{ID: "forinit_var", Kind: "stmt", Code: "for var_i := uint64(0); var_i < 3; var_i += 1 {\n\t\tx += 1\n\t}", Site: "forStmt post with op-assign"},
	{ID: "gofunclit_args", Kind: "stmt", Code: "go func(v uint64) {\n\t\tsideEffect(q, v)\n\t}(x)", Site: "goStmt: go statement with parameters"},
	{ID: "defer_unlock", Kind: "stmt", Code: "mu := new(sync.Mutex)\n\tmu.Lock()\n\tdefer mu.Unlock()\n\tx += 1", Site: "defer", NoLoop: true},
	{ID: "mutex_by_value", Kind: "stmt", Code: "var mu sync.Mutex\n\tmu.Lock()\n\tx += 1\n\tmu.Unlock()", Site: "selectorExprType: sync.Mutex without pointer indirection"},
	{ID: "mutex_trylock", Kind: "stmt", Code: "mu := new(sync.Mutex)\n\tif mu.TryLock() {\n\t\tx += 1\n\t\tmu.Unlock()\n\t}", Site: "lockMethod: method of sync.Mutex"},
	{ID: "rwmutex", Kind: "stmt", Code: "rw := new(sync.RWMutex)\n\trw.RLock()\n\tx += 1\n\trw.RUnlock()", Site: "sync.RWMutex is not a modelled lock"},
	{ID: "cond_by_value", Kind: "stmt", Code: "mu := new(sync.Mutex)\n\tc := sync.Cond{L: mu}\n\tc.Signal()\n\tx += 1", Site: "sync.Cond by value"},
	{ID: "once", Kind: "stmt", Code: "var once sync.Once\n\tonce.Do(func() {\n\t\tx += 5\n\t})", Site: "sync.Once"},
	{ID: "five_results", Kind: "stmt", Code: "r1, r2, r3, r4, r5 := five(x)\n\tx = r1 + r2 + r3 + r4 + r5", Site: "Binding.AddTo: destructuring more than 4 values"},
	{ID: "slice_of_slices", Kind: "stmt", Code: "ss := make([][]uint64, 2)\n\tss[1] = s\n\tx += ss[1][0] + uint64(len(ss[0]))", Site: "nested slices"},
	{ID: "struct_in_map", Kind: "stmt", Code: "hm := make(map[uint64]H)\n\thm[1] = H{f: x}\n\tx += hm[1].f + hm[2].f", Site: "map of structs"},
	// declaration-level atoms: each defines <ID>_fn(a uint64) uint64
	{ID: "namedresult", Kind: "decl", Code: "func namedresult_fn(a uint64) (r uint64) {\n\tr = a + 1\n\treturn\n}", Site: "returnType: named returned value"},
	{ID: "blankresult", Kind: "decl", Code: "func blankresult_two() (_ uint64, _ bool) {\n\treturn\n}\n\nfunc blankresult_one() (_ uint64) {\n\treturn\n}\n\nfunc blankresult_fn(a uint64) uint64 {\n\tv, ok := blankresult_two()\n\tif !ok {\n\t\treturn a + v + blankresult_one() + 1\n\t}\n\treturn 0\n}", Site: "returnType: named returned value (blank names)"},
	{ID: "blankresult_explicit", Kind: "decl", Code: "func blankresult_explicit_h(a uint64) (_ uint64, _ bool) {\n\treturn a + 2, true\n}\n\nfunc blankresult_explicit_fn(a uint64) uint64 {\n\tv, ok := blankresult_explicit_h(a)\n\tif ok {\n\t\treturn v\n\t}\n\treturn 0\n}", Site: "returnType: named returned value (blank names, explicit return)"},
	{ID: "variadic", Kind: "decl", Code: "func variadic_sum(xs ...uint64) uint64 {\n\tvar t uint64\n\tfor _, v := range xs {\n\t\tt += v\n\t}\n\treturn t\n}\n\nfunc variadic_fn(a uint64) uint64 {\n\treturn variadic_sum(a, 2, 3)\n}", Site: "variadic call"},
	{ID: "embedded", Kind: "decl", Code: "type embInner struct {\n\tv uint64\n}\n\ntype embOuter struct {\n\tembInner\n\tw uint64\n}\n\nfunc embedded_fn(a uint64) uint64 {\n\to := &embOuter{w: a}\n\to.v = 5\n\treturn o.v + o.w\n}", Site: "structFields: unnamed (embedded) field"},
	{ID: "multifield", Kind: "decl", Code: "type mf struct {\n\ta, b uint64\n}\n\nfunc multifield_fn(a uint64) uint64 {\n\tv := &mf{a: a, b: 2}\n\treturn v.a*10 + v.b\n}", Site: "structFields: multiple fields for same type"},
	{ID: "namedmethod", Kind: "decl", Code: "type nmId uint64\n\nfunc (i nmId) twice() nmId {\n\treturn i * 2\n}\n\nfunc namedmethod_fn(a uint64) uint64 {\n\tvar i nmId = nmId(a)\n\treturn uint64(i.twice())\n}", Site: "method on a named non-struct type"},
	{ID: "iotaconst", Kind: "decl", Code: "const (\n\tic0 uint64 = iota + 1\n\tic1\n\tic2\n)\n\nfunc iotaconst_fn(a uint64) uint64 {\n\treturn a + ic0*100 + ic1*10 + ic2\n}", Site: "constSpec: const with no value"},
	{ID: "constrepeat_typed", Kind: "decl", Code: "const (\n\tcrA uint64 = 1 << 3\n\tcrB\n)\n\nfunc constrepeat_typed_fn(a uint64) uint64 {\n\treturn a + crA*100 + crB\n}", Site: "constSpec: const with no value (implicit repetition of a typed spec)"},
	{ID: "constrepeat_untyped", Kind: "decl", Code: "const (\n\tcuA = 5\n\tcuB\n)\n\nfunc constrepeat_untyped_fn(a uint64) uint64 {\n\treturn a + cuA*100 + cuB\n}", Site: "constSpec: const with no value (implicit repetition)"},
	{ID: "constrepeat_three", Kind: "decl", Code: "const (\n\tctA uint32 = 7\n\tctB\n\tctC uint32 = 9\n\tctD\n)\n\nfunc constrepeat_three_fn(a uint64) uint64 {\n\treturn a + uint64(ctA) + uint64(ctB)*10 + uint64(ctC)*100 + uint64(ctD)*1000\n}", Site: "constSpec: const with no value"},
	{ID: "globalnovalue", Kind: "decl", Code: "var gnvA uint64\n\nvar gnvB bool\n\nfunc globalnovalue_fn(a uint64) uint64 {\n\tif gnvB {\n\t\treturn 1\n\t}\n\treturn a + gnvA\n}", Site: "globalVarDecl without a value"},
	{ID: "multiconst", Kind: "decl", Code: "const mcA, mcB uint64 = 1, 2\n\nfunc multiconst_fn(a uint64) uint64 {\n\treturn a + mcA*10 + mcB\n}", Site: "constDecl: multi-name spec"},
	{ID: "multiglobal", Kind: "decl", Code: "var mgA, mgB uint64 = 3, 4\n\nfunc multiglobal_fn(a uint64) uint64 {\n\treturn a + mgA*10 + mgB\n}", Site: "globalVarDecl: multi-name spec"},
	{ID: "globalassign", Kind: "decl", Code: "var gaCounter uint64 = 1\n\nfunc globalassign_fn(a uint64) uint64 {\n\tgaCounter = gaCounter + a\n\treturn gaCounter\n}", Site: "assignFromTo: global is not assignable"},
	{ID: "ifacemethod", Kind: "decl", Code: "type imShape interface {\n\tarea() uint64\n}\n\ntype imSq struct {\n\ts uint64\n}\n\nfunc (q imSq) area() uint64 {\n\treturn q.s * q.s\n}\n\nfunc imMeasure(s imShape) uint64 {\n\treturn s.area() + 1\n}\n\nfunc ifacemethod_fn(a uint64) uint64 {\n\treturn imMeasure(imSq{s: a})\n}", Site: "interface conversion"},
	{ID: "recursion", Kind: "decl", Code: "func recursion_fact(n uint64) uint64 {\n\tif n == 0 {\n\t\treturn 1\n\t}\n\treturn n * recursion_fact(n-1)\n}\n\nfunc recursion_fn(a uint64) uint64 {\n\treturn recursion_fact(a % 10)\n}", Site: "coqRecurFunc"},
	{ID: "mutualrec", Kind: "decl", Code: "func mrEven(n uint64) bool {\n\tif n == 0 {\n\t\treturn true\n\t}\n\treturn mrOdd(n - 1)\n}\n\nfunc mrOdd(n uint64) bool {\n\tif n == 0 {\n\t\treturn false\n\t}\n\treturn mrEven(n - 1)\n}\n\nfunc mutualrec_fn(a uint64) uint64 {\n\tif mrEven(a % 7) {\n\t\treturn 1\n\t}\n\treturn 0\n}", Site: "mutual recursion (cyclic dependency)"},
	{ID: "methodexpr", Kind: "decl", Code: "type meT struct {\n\tv uint64\n}\n\nfunc (t *meT) get() uint64 {\n\treturn t.v\n}\n\nfunc methodexpr_fn(a uint64) uint64 {\n\tt := &meT{v: a}\n\tf := t.get\n\tt.v = 9\n\treturn f()\n}", Site: "method value"},
	{ID: "genericstruct", Kind: "decl", Code: "type gsBox[T any] struct {\n\tv T\n}\n\nfunc genericstruct_fn(a uint64) uint64 {\n\tb := &gsBox[uint64]{v: a}\n\treturn b.v + 1\n}", Site: "typeDecl: generic named type"},
	{ID: "funcfieldcall", Kind: "decl", Code: "type ffT struct {\n\tf func(uint64) uint64\n}\n\nfunc funcfieldcall_fn(a uint64) uint64 {\n\tt := ffT{f: func(v uint64) uint64 {\n\t\treturn v + 2\n\t}}\n\treturn t.f(a)\n}", Site: "struct field of function type through a value"},
}

// HostPositions are the places a statement atom is inserted at.
var HostPositions = []string{"first", "middle", "last", "inif", "inloop", "inelse", "inclosure", "tailthen", "inrange", "ifinloop", "elseifarm", "loopinloop", "aftereturnif"}

const hostPrelude = `func keepSync() *sync.Mutex {
	return new(sync.Mutex)
}

func five(v uint64) (uint64, uint64, uint64, uint64, uint64) {
	return v, 1, 2, 3, 4
}

func four(v uint64) (uint64, uint64, uint64, uint64) {
	return v + 1, v % 3, 3, 4
}

func two(v uint64) (uint64, uint64) {
	return v + 1, v * 2
}

func three(v uint64) (uint64, bool, uint32) {
	return v + 2, v%2 == 0, uint32(v) + 9
}

type Seen map[uint64]bool

type Key string

type KeyHolder struct {
	k Key
}

type Counts map[string]uint64

type MapU map[uint64]uint64

type FnT func(uint64) uint64

type PtrU *uint64

type Bytes []byte

const Limit uint64 = 1000

var Factor uint64 = 10

func globalUser(v uint64) uint64 {
	return v*Factor + Limit
}

func shadowParam(Limit uint64, Factor uint64) uint64 {
	if Limit > Factor {
		return Limit - Factor
	}
	return Limit + Factor
}

func applyFn(f func(uint64) uint64, v uint64) uint64 {
	return f(f(v))
}

func keepMachine(b []byte) uint64 {
	return machine.UInt64Get(b)
}

type H struct {
	f uint64
	g uint32
	b byte
}

func (h *H) addTo(d uint64) uint64 {
	h.f = h.f + d
	return h.f
}

func (h H) sumWith(d uint64) uint64 {
	return h.f + uint64(h.g) + d
}

func addIntoDone(wg *sync.WaitGroup, q *uint64, v uint64) {
	*q = *q + v
	wg.Done()
}

func (h *H) addDone(wg *sync.WaitGroup, q *uint64, v uint64) {
	*q = *q + v + h.f
	wg.Done()
}

func sideEffect(q *uint64, v uint64) {
	_ = q
	_ = v
}

func sideEffect0() {
}

func mkSlice(v uint64) []uint64 {
	t := make([]uint64, 3)
	t[1] = v + 1
	return t
}

func mkH(v uint64) *H {
	return &H{f: v + 1, g: 5}
}

func takeH(h *H) uint64 {
	return h.f + uint64(h.g)
}

func addPair(a uint64, b uint64) uint64 {
	return a*3 + b
}

type Outer struct {
	in H
	n  uint64
}

`

// OutsidePackage builds the package for one atom: one host function per position and
// closed cases for a few arguments.
func OutsidePackage(a OutsideAtom) *Package { return AtomPackage("o_", a) }

// AtomPackage builds the host package of one atom; prefix distinguishes the catalogue.
func AtomPackage(prefix string, a OutsideAtom) *Package { return AtomPackageVariant(prefix, a, nil, 0) }

// surround are supported statements over the host variables that declare no new names (except
// inside their own bodies); random selections of them vary what precedes and follows an atom.
var surround = []string{
	"x = x + 1", "s[1] = x", "p.f = p.f ^ x", "m[2] = x", "*q = *q + 1", "w += 3", "z ^= 5", "x = x*3 + y",
	"if x > 5 {\n\t\tx = x - 1\n\t}", "if x%2 == 0 {\n\t\ts[2] = s[2] + 1\n\t} else {\n\t\tp.g += 1\n\t}",
	"for sv := uint64(0); sv < 2; sv++ {\n\t\tx += sv\n\t}", "for _, sv2 := range s {\n\t\tx = x + sv2\n\t}",
	"delete(m, 2)", "s[3] = s[0] + 1", "p.b += 1", "sideEffect0()",
}

// AtomPackageVariant: with rng != nil the statements before and after the atom are drawn at random.
func AtomPackageVariant(prefix string, a OutsideAtom, rng interface{ Intn(int) int }, variant int) *Package {
	var b strings.Builder
	name := prefix + a.ID
	if rng != nil {
		name = fmt.Sprintf("%s%s_v%d", prefix, a.ID, variant)
	}
	std := ""
	for _, imp := range a.Imports {
		std += "\t\"" + imp + "\"\n"
	}
	fmt.Fprintf(&b, "package %s\n\nimport (\n%s\t\"sync\"\n\n\t\"github.com/goose-lang/goose/machine\"\n)\n\n", name, std)
	var cases []string
	args := []uint64{0, 3, 8, 255, 4294967296, 18446744073709551615}
	if a.Light {
		args = []uint64{0, 3, 255, 18446744073709551615}
	}
	if a.Kind == "decl" {
		b.WriteString("func keepSync() *sync.Mutex {\n\treturn new(sync.Mutex)\n}\n\nfunc keepMachine(b []byte) uint64 {\n\treturn machine.UInt64Get(b)\n}\n\n" + a.Code + "\n\n")
		for i, v := range args {
			cn := fmt.Sprintf("case_%s_decl_%d", a.ID, i)
			fmt.Fprintf(&b, "func %s() uint64 {\n\treturn %s_fn(%d)\n}\n\n", cn, a.ID, v)
			cases = append(cases, cn)
		}
		return &Package{Name: name, Source: b.String(), Cases: cases, Features: map[string]int{"outside-" + a.ID: 1}}
	}
	b.WriteString(hostPrelude)
	b.WriteString(hostPrelude3)
	for _, pos := range HostPositions {
		if a.NoLoop && (pos == "inloop" || pos == "inclosure" || pos == "inrange" || pos == "ifinloop" || pos == "loopinloop") {
			continue
		}
		if a.Light && !lightPositions[pos] {
			continue
		}
		if len(a.Positions) > 0 && !strings.Contains(" "+strings.Join(a.Positions, " ")+" ", " "+pos+" ") {
			continue
		}
		fn := fmt.Sprintf("host_%s_%s", a.ID, pos)
		fmt.Fprintf(&b, "func %s(a uint64) uint64 {\n", fn)
		b.WriteString("\tvar x uint64 = a\n\ty := a + 1\n\ts := make([]uint64, 4)\n\ts[0] = a\n\ts[2] = 5\n\tp := &H{f: a, g: 6, b: 7}\n\tm := make(map[uint64]uint64)\n\tm[1] = a\n\tstr := \"abc\"\n\tbs := make([]byte, 3)\n\tvar w uint32 = 9\n\tvar z byte = 200\n\tq := new(uint64)\n\t*q = a + 2\n")
		code := "\t" + a.Code + "\n"
		pre := "\tx = x + 1\n\ts[1] = x\n"
		post := "\tx = x + y\n\tp.g = p.g + uint32(x)\n"
		if rng != nil {
			pre, post = "", ""
			for k := rng.Intn(4); k > 0; k-- {
				pre += "\t" + surround[rng.Intn(len(surround))] + "\n"
			}
			for k := rng.Intn(4); k > 0; k-- {
				post += "\t" + surround[rng.Intn(len(surround))] + "\n"
			}
		}
		switch pos {
		case "first":
			b.WriteString(code + post)
		case "middle":
			b.WriteString(pre + code + post)
		case "last":
			b.WriteString(pre + code)
		case "inif":
			b.WriteString(pre + "\tif a < 5 {\n" + indentBlock(code) + "\t}\n" + post)
		case "inelse":
			b.WriteString("\tif a > 5 {\n\t\tx = x + 3\n\t} else {\n" + indentBlock(code) + "\t}\n" + post)
		case "inloop":
			b.WriteString("\tfor r := uint64(0); r < 2; r++ {\n" + indentBlock(code) + "\t}\n" + post)
		case "tailthen":
			// inside an early-return then-branch (the remainder of the function follows)
			b.WriteString(pre + "\tif a < 5 {\n" + indentBlock(code) + "\t\treturn x + 1000\n\t}\n" + post)
		case "inrange":
			b.WriteString(pre + "\tfor _, rv := range s {\n\t\tx = x + rv\n" + indentBlock(code) + "\t}\n" + post)
		case "ifinloop":
			b.WriteString("\tfor r := uint64(0); r < 3; r++ {\n\t\tif r == 1 {\n\t\t\tcontinue\n\t\t}\n" + indentBlock(code) + "\t\tif x > 1000000 {\n\t\t\tbreak\n\t\t}\n\t}\n" + post)
		case "elseifarm":
			b.WriteString("\tif a > 100 {\n\t\tx = x + 3\n\t} else if a < 5 {\n" + indentBlock(code) + "\t} else {\n\t\tx = x + 4\n\t}\n" + post)
		case "loopinloop":
			b.WriteString("\tfor r := uint64(0); r < 2; r++ {\n\t\tfor r2 := uint64(0); r2 < 2; r2++ {\n" + indentBlock(indentBlock(code)) + "\t\t}\n\t\tx = x + r\n\t}\n" + post)
		case "aftereturnif":
			// after an early return: the atom lives in the remainder that goose moves into the else branch
			b.WriteString("\tif a == 3 {\n\t\treturn 77\n\t}\n" + pre + code + "\tif x == 12345 {\n\t\treturn 78\n\t}\n" + post)
		case "inclosure":
			b.WriteString("\tcl := func() uint64 {\n" + indentBlock(strings.ReplaceAll(code, "return x", "return x")) + "\t\treturn x\n\t}\n\tx = x + cl()\n" + post)
		}
		b.WriteString("\treturn x + y + s[0] + s[1] + s[2] + s[3] + uint64(len(s)) + uint64(cap(s)) + p.f + uint64(p.g) + uint64(p.b) + m[1] + uint64(len(m)) + uint64(len(str)) + uint64(bs[0]) + uint64(w) + uint64(z) + *q\n}\n\n")
		for i, v := range args {
			cn := fmt.Sprintf("case_%s_%s_%d", a.ID, pos, i)
			fmt.Fprintf(&b, "func %s() uint64 {\n\treturn %s(%d)\n}\n\n", cn, fn, v)
			cases = append(cases, cn)
		}
	}
	return &Package{Name: name, Source: b.String(), Cases: cases, Features: map[string]int{"outside-" + a.ID: len(HostPositions)}}
}

func indentBlock(code string) string {
	lines := strings.Split(strings.TrimRight(code, "\n"), "\n")
	for i, l := range lines {
		if l != "" {
			lines[i] = "\t" + l
		}
	}
	return strings.Join(lines, "\n") + "\n"
}

// InsideAtoms are SUPPORTED statements; they go through the same hosts and positions as the
// outside atoms (the statement × context × position matrix of C01).
var InsideAtoms = []OutsideAtom{
	{ID: "define", Kind: "stmt", Code: "t := x + y\n\tx = t * 2"},
	{ID: "define_shadow", Kind: "stmt", Code: "y := x + 5\n\tx = y + 1"},
	{ID: "var_init", Kind: "stmt", Code: "var t uint64 = x + 1\n\tt = t + y\n\tx = t"},
	{ID: "var_zero", Kind: "stmt", Code: "var t uint64\n\tt = x\n\tx = t + 3"},
	{ID: "assign", Kind: "stmt", Code: "x = x*3 + y"},
	{ID: "opassign", Kind: "stmt", Code: "x += y\n\tx -= 1\n\tx |= 16\n\tx &= 0xFFFF\n\tx ^= 5"},
	{ID: "opassign_u32", Kind: "stmt", Code: "w += 7\n\tw ^= 3\n\tx += uint64(w)"},
	{ID: "opassign_u8", Kind: "stmt", Code: "z += 100\n\tz -= 3\n\tx += uint64(z)"},
	{ID: "incdec", Kind: "stmt", Code: "x++\n\tx++\n\tx--"},
	{ID: "field_store", Kind: "stmt", Code: "p.f = p.f + x\n\tp.g += 2\n\tp.b ^= 1"},
	{ID: "deref_store", Kind: "stmt", Code: "*q = *q + x\n\t*q ^= 9"},
	{ID: "elem_store", Kind: "stmt", Code: "s[3] = s[0] + x\n\ts[2] += 1"},
	{ID: "map_ops", Kind: "stmt", Code: "m[2] = x\n\tm[1] += 3\n\tdelete(m, 9)\n\tv2, ok2 := m[2]\n\tif ok2 {\n\t\tx = x + v2\n\t}"},
	{ID: "ifelse", Kind: "stmt", Code: "if x%2 == 0 {\n\t\tx = x + 10\n\t} else {\n\t\tx = x + 20\n\t}"},
	{ID: "if_only", Kind: "stmt", Code: "if x > 3 && y != 4 {\n\t\tx = x - 1\n\t}"},
	{ID: "elseif", Kind: "stmt", Code: "if x == 0 {\n\t\tx = 5\n\t} else if x < 4 {\n\t\tx = x * 9\n\t} else {\n\t\tx = x + 1\n\t}"},
	{ID: "for3", Kind: "stmt", Code: "for i := uint64(0); i < 3; i++ {\n\t\tx = x + i\n\t}"},
	{ID: "for3_break_continue", Kind: "stmt", Code: "for i := uint64(0); i < 6; i++ {\n\t\tif i == 1 {\n\t\t\tcontinue\n\t\t}\n\t\tif i == 4 {\n\t\t\tbreak\n\t\t}\n\t\tx = x + i\n\t}"},
	{ID: "for_cond", Kind: "stmt", Code: "var c uint64 = 0\n\tfor c < 3 {\n\t\tc = c + 1\n\t\tx = x + c\n\t}"},
	{ID: "for_inf", Kind: "stmt", Code: "var c uint64 = 0\n\tfor {\n\t\tif c >= 2 {\n\t\t\tbreak\n\t\t}\n\t\tc++\n\t\tx += c\n\t}"},
	{ID: "for_condpost", Kind: "stmt", Code: "var c uint64 = 0\n\tfor ; c < 3; c++ {\n\t\tx += c\n\t}"},
	{ID: "range_kv", Kind: "stmt", Code: "for i, v := range s {\n\t\tx = x + v + uint64(i)\n\t}"},
	{ID: "range_v", Kind: "stmt", Code: "for _, v := range s {\n\t\tx = x + v*2\n\t}"},
	{ID: "range_k", Kind: "stmt", Code: "for i := range s {\n\t\tx = x + uint64(i)\n\t}"},
	{ID: "range_map", Kind: "stmt", Code: "for k, v := range m {\n\t\tx = x + k + v\n\t}"},
	{ID: "call_stmt", Kind: "stmt", Code: "sideEffect(q, x)\n\tsideEffect0()"},
	{ID: "closure", Kind: "stmt", Code: "f := func(d uint64) uint64 {\n\t\treturn d + y\n\t}\n\tx = f(x) + f(1)"},
	{ID: "closure_mutates", Kind: "stmt", Code: "inc := func() {\n\t\tx = x + 1\n\t}\n\tinc()\n\tinc()"},
	{ID: "multiret", Kind: "stmt", Code: "r1, r2 := two(x)\n\tx = r1 + r2"},
	{ID: "multiret_blank", Kind: "stmt", Code: "_, r2 := two(x)\n\tx = x + r2"},
	{ID: "multiassign", Kind: "stmt", Code: "var a1 uint64\n\tvar a2 uint64\n\ta1, a2 = two(x)\n\tx = a1*3 + a2"},
	{ID: "four_results", Kind: "stmt", Code: "r1, r2, r3, r4 := four(x)\n\tx = r1 + r2*2 + r3*3 + r4*4"},
	{ID: "append", Kind: "stmt", Code: "var t []uint64\n\tt = append(t, x)\n\tt = append(t, s...)\n\tx = x + uint64(len(t)) + t[0]"},
	{ID: "subslice", Kind: "stmt", Code: "t := s[1:3]\n\tt[0] = x\n\tx = x + s[1] + uint64(len(t)) + uint64(cap(t))"},
	{ID: "copy", Kind: "stmt", Code: "t := make([]uint64, 2)\n\tn := copy(t, s)\n\tx = x + uint64(n) + t[0]"},
	{ID: "struct_lit", Kind: "stmt", Code: "h2 := &H{f: x, b: 3}\n\th3 := H{g: 8}\n\tx = x + h2.f + uint64(h2.b) + uint64(h3.g)"},
	{ID: "string_ops", Kind: "stmt", Code: "str2 := str + \"de\"\n\tbs2 := []byte(str2)\n\tx = x + uint64(len(str2)) + uint64(bs2[4])\n\tif string(bs2) == str2 {\n\t\tx += 1\n\t}"},
	{ID: "encode", Kind: "stmt", Code: "eb := make([]byte, 12)\n\tmachine.UInt64Put(eb, x)\n\tmachine.UInt32Put(eb[8:], w)\n\tx = machine.UInt64Get(eb) + uint64(machine.UInt32Get(eb[8:]))"},
	{ID: "nested_block_fresh", Kind: "stmt", Code: "{\n\t\tfresh1 := x + 1\n\t\tx = fresh1 * 2\n\t}"},
	{ID: "nested_block_shadow", Kind: "stmt", Code: "{\n\t\ty := x + 5\n\t\tx = y + 1\n\t}\n\tx = x + y"},
	{ID: "nested_block_shadow_var", Kind: "stmt", Code: "{\n\t\tvar y uint64 = x + 5\n\t\ty += 1\n\t\tx = y + 1\n\t}\n\tx = x + y"},
	{ID: "nested_block_twice", Kind: "stmt", Code: "{\n\t\ty := x + 5\n\t\tx = y\n\t}\n\t{\n\t\ty := x * 2\n\t\tx = y\n\t}\n\tx = x + y"},
	{ID: "lock", Kind: "stmt", Code: "mu := new(sync.Mutex)\n\tmu.Lock()\n\tx += 1\n\tmu.Unlock()"},
	{ID: "named_map_absent_bool", Kind: "stmt", Code: "sn := make(Seen)\n\tif !sn[x] {\n\t\tx += 3\n\t}\n\tx += uint64(len(sn))"},
	{ID: "named_map_absent_u64", Kind: "stmt", Code: "cn := make(Counts)\n\tx += cn[\"k\"] + 1"},
	{ID: "named_map_insert", Kind: "stmt", Code: "sn := make(Seen)\n\tsn[x] = true\n\tif sn[x] {\n\t\tx += 5\n\t}"},
	{ID: "named_slice", Kind: "stmt", Code: "nb := make(Bytes, 3)\n\tnb = append(nb, 7)\n\tx += uint64(len(nb)) + uint64(nb[3])"},
	{ID: "map_make_absent_kinds", Kind: "stmt", Code: "mb := make(map[uint64]bool)\n\tms := make(map[uint64]string)\n\tm32 := make(map[uint64]uint32)\n\tmsl := make(map[string][]byte)\n\tif !mb[1] {\n\t\tx += uint64(len(ms[2])) + uint64(m32[3]) + uint64(len(msl[\"q\"])) + 1\n\t}"},
	{ID: "multiassign_blank_first", Kind: "stmt", Code: "var y2 uint64\n\t_, y2 = two(x)\n\tx = x + y2*3"},
	{ID: "multiassign_blank_last", Kind: "stmt", Code: "var y2 uint64\n\ty2, _ = two(x)\n\tx = x + y2*3"},
	{ID: "multiassign_blank_mixed4", Kind: "stmt", Code: "var a1 uint64\n\tvar a4 uint64\n\ta1, _, _, a4 = four(x)\n\tx = a1*5 + a4"},
	{ID: "multiassign_blank_mid4", Kind: "stmt", Code: "var a3 uint64\n\t_, _, a3, _ = four(x)\n\tx = x + a3*7"},
	{ID: "multiassign_to_fields", Kind: "stmt", Code: "p.f, s[1] = two(x)\n\tx = x + 1"},
	{ID: "three_results", Kind: "stmt", Code: "t1, t2, t3 := three(x)\n\tif t2 {\n\t\tx = t1 + uint64(t3)\n\t}"},
	{ID: "method_value", Kind: "stmt", Code: "h2 := &H{f: x}\n\tg := h2.addTo\n\tr1 := g(5)\n\tr2 := applyFn(h2.addTo, 2)\n\tx = r1 + r2*3"},
	{ID: "method_value_valrecv", Kind: "stmt", Code: "h3 := H{f: x, g: 2}\n\tgv := h3.sumWith\n\tx = gv(1)"},
	{ID: "local_shadows_global", Kind: "stmt", Code: "Limit := x + 1\n\tvar Factor uint64 = 2\n\tx = Limit*Factor + globalUser(1)"},
	{ID: "param_named_like_global", Kind: "stmt", Code: "x = shadowParam(x, 3) + Limit"},
}

func init() {
	InsideAtoms = append(InsideAtoms, BlockBinderAtoms()...)
}
