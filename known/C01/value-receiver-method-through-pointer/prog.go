package w

type Pt struct {
	x uint64
	y uint64
}

func (p Pt) sum() uint64 {
	return p.x + p.y
}

func viaPointer(a uint64) uint64 {
	p := &Pt{x: a, y: 1}
	return p.sum()
}

func case_viaPointer() uint64 { return viaPointer(4) }
