package w

type T32 uint32

func low(a uint64) T32 {
	return T32(a) + 1
}

func case_low() T32 { return low(0x1FFFFFFFF) }
