package w

func inc32(a uint32) uint32 {
	var y uint32 = a
	y++
	return y
}

func dec8(a byte) byte {
	var y byte = a
	y--
	return y
}

func case_inc32() uint32 { return inc32(7) }
func case_dec8() byte    { return dec8(0) }
