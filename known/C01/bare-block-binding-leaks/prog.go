package w

func blockShadow(a uint64) uint64 {
	x := a
	{
		x := uint64(2)
		_ = x
	}
	return x
}

func case_blockShadow() uint64 { return blockShadow(7) }
