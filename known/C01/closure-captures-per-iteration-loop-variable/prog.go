package w

type Holder struct {
	f func() uint64
}

func capture() uint64 {
	h := &Holder{f: func() uint64 { return 77 }}
	for i := uint64(0); i < 3; i++ {
		if i == 1 {
			h.f = func() uint64 { return i }
		}
	}
	return h.f()
}

func case_capture() uint64 { return capture() }
