package w

const Big uint64 = (1 << 64) / 4

func big() uint64 {
	return Big
}

func case_big() uint64 { return big() }
