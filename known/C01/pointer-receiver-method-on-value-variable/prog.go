package w

type In struct {
	n uint64
}

func (i *In) inc() {
	i.n = i.n + 1
}

func onValue(a uint64) uint64 {
	var i In
	i.n = a
	i.inc()
	return i.n
}

func case_onValue() uint64 { return onValue(4) }
