package w

type Pt struct {
	x uint64
	y uint64
}

func setField(a uint64) uint64 {
	c := Pt{x: a, y: 2}
	c.x = 1000
	return c.x + c.y
}

func case_setField() uint64 { return setField(5) }
