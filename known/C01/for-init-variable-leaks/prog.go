package w

func loopShadow(a uint64) uint64 {
	i := a
	var acc uint64 = 0
	for i := uint64(0); i < 3; i++ {
		acc = acc + i
	}
	return i + acc
}

func case_loopShadow() uint64 { return loopShadow(100) }
