package w

// copy between two slices of one backing array with the destination ahead of the source: Go copies as if
// through a temporary (memmove); GooseLang's SliceCopy is MemCpy_rec, a forward element-by-element copy,
// which re-reads elements it has already overwritten.
func overlap(a uint64) (byte, byte, byte, byte, uint64) {
	m := make([]byte, 6)
	m[0] = byte(a)
	m[1] = byte(a) + 1
	m[2] = byte(a) + 2
	m[3] = byte(a) + 3
	v := m[2:6]
	n := uint64(copy(v, m))
	return m[2], m[3], m[4], m[5], n
}

func case_overlap() (byte, byte, byte, byte, uint64) { return overlap(10) }
