package w

func f32(x uint32) uint32 {
	return x + 1
}

func shifted() uint32 {
	return f32(1 << 20)
}

func case_shifted() uint32 { return shifted() }
