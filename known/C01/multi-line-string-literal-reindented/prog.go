package w

func msg() (string, uint64) {
	s := "a\nb"
	return s, uint64(len(s))
}

func case_msg() (string, uint64) { return msg() }
