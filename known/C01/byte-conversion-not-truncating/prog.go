package w

func low(a uint64) byte {
	return byte(a)
}

func case_low() byte { return low(0x1FF) }
