package w

func nilMap(a uint64) (uint64, uint64) {
	var m map[uint64]uint64
	var acc uint64 = 0
	for k, v := range m {
		acc += k + v
	}
	return uint64(len(m)) + m[a], acc
}

func case_nilMap() (uint64, uint64) { return nilMap(3) }
