package w

// a package-level function that shares its name with a builtin: Go calls the user's function
func len(s []uint64) uint64 {
	return 77
}

func useLen(a uint64) uint64 {
	s := make([]uint64, a)
	return len(s)
}

func case_useLen() uint64 { return useLen(3) }
