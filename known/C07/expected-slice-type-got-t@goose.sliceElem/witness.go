// Witness: slicing a string reaches sliceElem, which panics with a fmt.Errorf value.
package witness

func tail(s string) string {
	return s[1:]
}
