// Witness: an integer literal in a floating-point context carries a constant of
// kind Float; constant.Uint64Val panics on it.
package witness

func half() {
	var f float64 = 1
	_ = f
}
