// Witness: five results bound at once; the panic is raised while the file is
// WRITTEN (internal/coq), outside the per-declaration recover.
package witness

func five() (uint64, uint64, uint64, uint64, uint64) {
	return 1, 2, 3, 4, 5
}

func use() uint64 {
	a, b, c, d, e := five()
	return a + b + c + d + e
}
