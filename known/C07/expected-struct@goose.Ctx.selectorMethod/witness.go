// Witness: calling a function-typed field of a value whose type is an anonymous
// struct: the selector's type has a struct underlying type but is not a named
// type: panic("expected struct"). (The global itself is rejected with a
// structured error; the crash is in callField.)
package witness

var config struct {
	f func()
}

func callField() {
	config.f()
}
