// Witness: a method call through an unnamed interface type falls through to the
// unchecked assertion deref.(*types.Named). (The global itself is rejected with
// a structured error; the crash is in measure.)
package witness

var shape interface {
	M() uint64
}

func measure() uint64 {
	return shape.M()
}
