// Witness: dereferencing a value whose type is a NAMED pointer type reaches ptrElem.
package witness

type ptr *uint64

func load() uint64 {
	var p ptr = new(uint64)
	return *p
}
