// Witness: a method of an instantiated generic type has no scope (fun.Scope() == nil).
package witness

type box[T any] struct {
	v T
}

func (b *box[T]) get() T {
	return b.v
}

func use(b *box[uint64]) uint64 {
	return b.get()
}
