// Witness: one package using two FFI packages: getFfi panics before any
// declaration is translated (this one is mainly C08's subject).
package witness

import (
	"github.com/goose-lang/goose/machine/async_disk"
	"github.com/goose-lang/goose/machine/disk"
)

func both() uint64 {
	return disk.Size() + async_disk.BlockSize
}
