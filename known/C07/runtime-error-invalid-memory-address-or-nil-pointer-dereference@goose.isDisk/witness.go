// Witness: a method call on a value of the universe type `error`
// (types.Named with a nil *types.Package) reaches isDisk's obj.Pkg().Path().
// (The global itself is rejected with a structured error; the crash is in describe.)
package witness

var failure error

func describe() string {
	return failure.Error()
}
