// Witness: the empty composite literal of a NAMED slice type: coqType gives a
// TypeIdent, which compositeLiteral asserts to be a coq.SliceType.
package witness

type list []uint64

func empty() list {
	return list{}
}
